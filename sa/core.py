"""
E1 — repository index and resolver; E2 — reference graph.

Everything here reads source text with `ast`; nothing from the analysed repository is imported.
"""

import ast
import builtins
import os

BUILTINS = frozenset(dir(builtins))


class AnalysisError(Exception):
    """The analysis itself cannot be carried out (vanished anchor, unknown shape)."""


class _FStringToFormat(ast.NodeTransformer):
    """
    One spelling for string templates: every f-string is read as the `"<template>".format(...)` call it abbreviates
    (`f"#/components/schemas/{name}"` -> `"#/components/schemas/{name}".format(name=name)`), so that the rules see
    the same template constants and the same arguments whichever spelling the source uses. A plain name keeps its
    name as the placeholder, any other expression becomes a positional `{}`. F-strings whose format spec is itself
    computed are left as they are.
    """

    def visit_JoinedStr(self, node):
        self.generic_visit(node)
        tpl, args, kws = [], [], {}
        for v in node.values:
            if isinstance(v, ast.Constant) and isinstance(v.value, str):
                tpl.append(v.value.replace("{", "{{").replace("}", "}}"))
                continue
            if not isinstance(v, ast.FormattedValue):
                return node
            spec = ""
            if v.format_spec is not None:
                if not (isinstance(v.format_spec, ast.JoinedStr) and all(isinstance(x, ast.Constant) for x in v.format_spec.values)):
                    return node
                spec = ":" + "".join(str(x.value) for x in v.format_spec.values)
            conv = {-1: "", 114: "!r", 115: "!s", 97: "!a"}.get(v.conversion, "")
            if isinstance(v.value, ast.Name):
                kws[v.value.id] = v.value
                tpl.append("{" + v.value.id + conv + spec + "}")
            else:
                # mixing automatic and explicit numbering is not allowed, but automatic + keywords is
                args.append(v.value)
                tpl.append("{" + conv + spec + "}")
        if not args and not kws:
            return ast.copy_location(ast.Constant(value="".join(tpl).replace("{{", "{").replace("}}", "}")), node)
        call = ast.Call(
            func=ast.Attribute(value=ast.Constant(value="".join(tpl)), attr="format", ctx=ast.Load()),
            args=args,
            keywords=[ast.keyword(arg=k, value=val) for k, val in kws.items()],
        )
        return ast.copy_location(call, node)


class _LocalAnnAssignToAssign(ast.NodeTransformer):
    """
    Inside a function body `x: T = v` is `x = v` (the annotation of a local is never evaluated) and a bare `x: T`
    is nothing at all. Read them that way, so that adding or removing local type annotations changes nothing the
    rules see. Module- and class-level annotations ARE evaluated at import time and are left alone.
    """

    def __init__(self):
        self.depth = 0

    def _func(self, node):
        self.depth += 1
        self.generic_visit(node)
        self.depth -= 1
        return node

    visit_FunctionDef = _func
    visit_AsyncFunctionDef = _func

    def visit_ClassDef(self, node):
        # a class body nested in a function is still a class body: its annotations are evaluated
        d, self.depth = self.depth, 0
        self.generic_visit(node)
        self.depth = d
        return node

    def visit_AnnAssign(self, node):
        self.generic_visit(node)
        if self.depth == 0 or not isinstance(node.target, (ast.Name, ast.Attribute, ast.Subscript)):
            return node
        if node.value is None:
            return ast.copy_location(ast.Pass(), node) if isinstance(node.target, ast.Name) else node
        return ast.copy_location(ast.Assign(targets=[node.target], value=node.value), node)


_CONST_NAME = None


def _pure_string_literal(v):
    """a string literal, or a tuple (of tuples ...) of string literals — a value with no identity and no mutability"""
    if isinstance(v, ast.Constant):
        return isinstance(v.value, str)
    if isinstance(v, ast.Tuple) and v.elts:
        return all(_pure_string_literal(e) for e in v.elts)
    return False


def _frozen_literal(v):
    """frozenset(<tuple / list / set display of string or number literals>)"""
    return (
        isinstance(v, ast.Call)
        and isinstance(v.func, ast.Name)
        and v.func.id == "frozenset"
        and len(v.args) == 1
        and not v.keywords
        and isinstance(v.args[0], (ast.Tuple, ast.List, ast.Set))
        and bool(v.args[0].elts)
        and all(isinstance(e, ast.Constant) and isinstance(e.value, (str, int, float)) for e in v.args[0].elts)
    )


def _dict_literal(v):
    """a dict display whose keys and values are all string / number / None literals"""
    return (
        isinstance(v, ast.Dict)
        and bool(v.keys)
        and all(isinstance(k, ast.Constant) for k in v.keys)
        and all(isinstance(x, ast.Constant) and isinstance(x.value, (str, int, float, type(None))) for x in v.values)
    )


def _only_looked_up(tree, name):
    """every load of module-level `name` is a lookup that cannot change the object"""
    parents = {}
    for p_ in ast.walk(tree):
        for c_ in ast.iter_child_nodes(p_):
            parents[c_] = p_
    for n in ast.walk(tree):
        if isinstance(n, ast.Name) and n.id == name and isinstance(n.ctx, ast.Load):
            p_ = parents.get(n)
            if isinstance(p_, ast.Subscript) and p_.value is n and isinstance(p_.ctx, ast.Load):
                continue
            if isinstance(p_, ast.Attribute) and p_.value is n and p_.attr in ("__getitem__", "get", "items", "keys", "values", "__contains__"):
                continue
            if isinstance(p_, ast.Compare) and n in p_.comparators and all(isinstance(o, (ast.In, ast.NotIn)) for o in p_.ops):
                continue
            return False
    return True


def _inline_module_string_constants(tree):
    """
    `_OPTIONAL_PREFIX = "Optional["` hoisted to module level and used by name is the same program as the literal
    written in place. Every module-level NAME in CONSTANT_CASE (optionally _private) that is bound exactly once in
    the whole module, to a string literal, and is never a parameter / global-declared / re-assigned anywhere, is
    read as that literal wherever the module loads it. (Only within the defining module: an imported constant keeps
    its name.)
    """
    import re

    global _CONST_NAME
    if _CONST_NAME is None:
        _CONST_NAME = re.compile(r"^_?[A-Z][A-Z0-9_]*$")
    cands = {}
    for s in tree.body:
        if isinstance(s, ast.Assign) and len(s.targets) == 1 and isinstance(s.targets[0], ast.Name):
            t, v = s.targets[0], s.value
        elif isinstance(s, ast.AnnAssign) and isinstance(s.target, ast.Name) and s.value is not None:
            t, v = s.target, s.value
        else:
            continue
        if _CONST_NAME.match(t.id) and _pure_string_literal(v):
            cands.setdefault(t.id, []).append(v)
        elif t.id.startswith("_") and _CONST_NAME.match(t.id) and _dict_literal(v) and _only_looked_up(tree, t.id):
            # _METHOD_ORDER = {"post": 0, "get": 1}: a PRIVATE lookup table of literals that is only ever read
            # (subscript / get / __getitem__ / in / items...) reads as the literal
            cands.setdefault(t.id, []).append(v)
        elif t.id.startswith("_") and _CONST_NAME.match(t.id) and _frozen_literal(v):
            # _SIGNS = frozenset(("-", "+")) — a PRIVATE constant set of literals hoisted out of a function (a public
            # one is API and keeps its name)
            cands.setdefault(t.id, []).append(v)
    if not cands:
        return
    stores = {}
    for n in ast.walk(tree):
        if isinstance(n, ast.Name) and isinstance(n.ctx, (ast.Store, ast.Del)):
            stores[n.id] = stores.get(n.id, 0) + 1
        elif isinstance(n, ast.arg):
            stores[n.arg] = stores.get(n.arg, 0) + 2
        elif isinstance(n, (ast.Global, ast.Nonlocal)):
            for nm in n.names:
                stores[nm] = stores.get(nm, 0) + 2
        elif isinstance(n, ast.alias):
            nm = (n.asname or n.name).split(".")[0]
            stores[nm] = stores.get(nm, 0) + 2
        elif isinstance(n, (ast.FunctionDef, ast.AsyncFunctionDef, ast.ClassDef)):
            stores[n.name] = stores.get(n.name, 0) + 2
        elif isinstance(n, ast.ExceptHandler) and n.name:
            stores[n.name] = stores.get(n.name, 0) + 2
    consts = {k: v[0] for k, v in cands.items() if len(v) == 1 and stores.get(k) == 1}
    if not consts:
        return

    class Inl(ast.NodeTransformer):
        def visit_Name(self, n):
            if isinstance(n.ctx, ast.Load) and n.id in consts:
                import copy

                return ast.copy_location(copy.deepcopy(consts[n.id]), n)
            return n

    Inl().visit(tree)


class Mod(object):
    """One parsed module"""

    __slots__ = (
        "name",
        "path",
        "rel",
        "is_pkg",
        "is_test",
        "tree",
        "source",
        "top",
        "parents",
    )

    def __init__(self, name, path, rel, is_pkg, source):
        self.name = name
        self.path = path
        self.rel = rel
        self.is_pkg = is_pkg
        self.is_test = ".tests" in name
        self.source = source
        self.tree = _FStringToFormat().visit(ast.parse(source, filename=path))
        _inline_module_string_constants(self.tree)
        _LocalAnnAssignToAssign().visit(self.tree)
        ast.fix_missing_locations(self.tree)
        self.top = {}
        self.parents = {}
        for p in ast.walk(self.tree):
            for c in ast.iter_child_nodes(p):
                self.parents[c] = p

    def package(self):
        """dotted name of the package relative imports are resolved against"""
        return self.name if self.is_pkg else self.name.rpartition(".")[0]


class Func(object):
    """One function (top-level, method or nested)"""

    __slots__ = ("qual", "mod", "node", "cls", "outer", "locals", "params", "nested", "local_imports")

    def __init__(self, qual, mod, node, cls, outer):
        self.qual = qual
        self.mod = mod
        self.node = node
        self.cls = cls
        self.outer = outer
        self.nested = {}
        self.local_imports = {}
        a = node.args
        self.params = [
            x.arg for x in (a.posonlyargs + a.args + a.kwonlyargs)
        ] + [x.arg for x in (a.vararg, a.kwarg) if x is not None]
        self.locals = set(self.params)

    @property
    def short(self):
        """qualname without module"""
        return self.qual[len(self.mod.name) + 1 :]

    def __repr__(self):
        return "<Func {}>".format(self.qual)


def attr_chain(node):
    """`a.b.c` -> ['a','b','c'] or None when not rooted at a Name"""
    chain = []
    while isinstance(node, ast.Attribute):
        chain.append(node.attr)
        node = node.value
    if isinstance(node, ast.Name):
        chain.append(node.id)
        chain.reverse()
        return chain
    return None


def norm(node):
    """normalised text of a construct (position independent)"""
    if node is None:
        return ""
    if isinstance(node, str):
        return node
    try:
        return ast.unparse(node)
    except Exception:  # pragma: no cover
        return ast.dump(node)


def short(node, n=110):
    """shortened normalised text"""
    s = " ".join(norm(node).split())
    return s if len(s) <= n else s[: n - 3] + "..."


def iter_own(fn_node):
    """walk a function body without descending into nested def/class (lambdas ARE descended)"""
    stack = list(ast.iter_child_nodes(fn_node))
    while stack:
        n = stack.pop()
        yield n
        if isinstance(n, (ast.FunctionDef, ast.AsyncFunctionDef, ast.ClassDef)):
            continue
        stack.extend(ast.iter_child_nodes(n))


def stored_names(target):
    """names bound by an assignment target"""
    for n in ast.walk(target):
        if isinstance(n, ast.Name) and isinstance(n.ctx, (ast.Store, ast.Del)):
            yield n.id


class Index(object):
    """E1: all modules below <root>/cdd, symbol tables, functions, resolver"""

    def __init__(self, root):
        self.root = os.path.abspath(root)
        self.modules = {}
        self.funcs = {}
        self.classes = {}
        pkg = os.path.join(self.root, "cdd")
        if not os.path.isdir(pkg):
            raise AnalysisError("no package directory {}".format(pkg))
        for dirpath, dirnames, filenames in os.walk(pkg):
            dirnames[:] = sorted(d for d in dirnames if d != "__pycache__")
            for f in sorted(filenames):
                if not f.endswith(".py"):
                    continue
                p = os.path.join(dirpath, f)
                rel = os.path.relpath(p, self.root)
                name = rel[:-3].replace(os.sep, ".")
                is_pkg = False
                if name.endswith(".__init__"):
                    name = name[: -len(".__init__")]
                    is_pkg = True
                with open(p, "rt", encoding="utf-8") as fh:
                    src = fh.read()
                try:
                    self.modules[name] = Mod(name, p, rel, is_pkg, src)
                except SyntaxError as e:
                    raise AnalysisError("cannot parse {}: {}".format(rel, e))
        for m in self.modules.values():
            self._index_module(m)
        if os.environ.get("CDD_SA_NO_KWNORM") != "1":
            self._normalise_keyword_calls()

    def _normalise_keyword_calls(self):
        """
        One spelling for the arguments of calls to the package's own plain functions: a keyword that names the
        callee's next positional parameter is read as that positional argument (`f(a, y=b)` as `f(a, b)` for
        `def f(x, y)`), repeatedly, so that the rules see `get_value(node=n)` and `get_value(n)` alike. Only for
        callees that resolve to an undecorated function of the package without *args; keyword-only parameters and
        keywords beyond a gap stay keywords. Evaluation order is irrelevant to the analysis.
        """
        n = 0

        def fix(m, call, func):
            nonlocal n
            if not call.keywords or any(isinstance(a, ast.Starred) for a in call.args) or any(k.arg is None for k in call.keywords):
                return
            h = self.funcs.get(self.resolve(m, call.func, func) or "")
            if h is None or h.node.decorator_list or h.node.args.vararg is not None:
                return
            pos = [a.arg for a in h.node.args.posonlyargs + h.node.args.args]
            if h.cls is not None:
                return  # bound / unbound method calls: the receiver shifts the positions
            while len(call.args) < len(pos):
                want = pos[len(call.args)]
                k = next((k for k in call.keywords if k.arg == want), None)
                if k is None:
                    break
                call.keywords.remove(k)
                call.args.append(k.value)
                m.parents[k.value] = call
                n += 1

        for f in list(self.funcs.values()):
            for x in iter_own(f.node):
                if isinstance(x, ast.Call):
                    fix(f.mod, x, f)
        for m in self.modules.values():
            stack = list(m.tree.body)
            while stack:
                x = stack.pop()
                if isinstance(x, (ast.FunctionDef, ast.AsyncFunctionDef, ast.Lambda)):
                    # defaults and decorators are evaluated at module level
                    stack.extend(x.decorator_list if not isinstance(x, ast.Lambda) else [])
                    stack.extend(d for d in x.args.defaults + x.args.kw_defaults if d is not None)
                    continue
                if isinstance(x, ast.Call):
                    fix(m, x, None)
                stack.extend(ast.iter_child_nodes(x))
        self.keyword_calls_normalised = n

    # ------------------------------------------------------------------ build
    def _index_module(self, m):
        def bind_stmt(s):
            if isinstance(s, (ast.FunctionDef, ast.AsyncFunctionDef)):
                m.top[s.name] = ("def", m.name + "." + s.name)
            elif isinstance(s, ast.ClassDef):
                m.top[s.name] = ("class", m.name + "." + s.name)
            elif isinstance(s, ast.Import):
                for a in s.names:
                    if a.asname:
                        m.top[a.asname] = ("mod", a.name)
                    else:
                        r = a.name.split(".")[0]
                        m.top[r] = ("mod", r)
            elif isinstance(s, ast.ImportFrom):
                base = self.abs_from(m, s)
                for a in s.names:
                    if a.name != "*":
                        m.top[a.asname or a.name] = ("sym", base, a.name)
            elif isinstance(s, (ast.Assign, ast.AnnAssign, ast.AugAssign)):
                tg = s.targets if isinstance(s, ast.Assign) else [s.target]
                val = s.value
                for t in tg:
                    if isinstance(t, ast.Name):
                        prev = m.top.get(t.id)
                        if prev is not None and prev[0] == "var":
                            m.top[t.id] = ("var", prev[1] + [s])
                        else:
                            m.top[t.id] = ("var", [s])
                    else:
                        for nm in stored_names(t):
                            m.top.setdefault(nm, ("var", [s]))
                del val
            elif isinstance(s, (ast.If, ast.Try, ast.With, ast.For, ast.While)):
                for fld in ("body", "orelse", "finalbody"):
                    for b in getattr(s, fld, []):
                        bind_stmt(b)
                for h in getattr(s, "handlers", []):
                    for b in h.body:
                        bind_stmt(b)

        for s in m.tree.body:
            bind_stmt(s)

        def reg(owner_qual, node, cls, outer):
            for ch in ast.iter_child_nodes(node):
                if isinstance(ch, (ast.FunctionDef, ast.AsyncFunctionDef)):
                    q = owner_qual + "." + ch.name
                    f = Func(q, m, ch, cls, outer)
                    self.funcs[q] = f
                    if outer is not None:
                        outer.nested[ch.name] = f
                        outer.locals.add(ch.name)
                    reg(q, ch, None, f)
                elif isinstance(ch, ast.ClassDef):
                    q = owner_qual + "." + ch.name
                    self.classes[q] = (m, ch)
                    if outer is not None:
                        outer.locals.add(ch.name)
                    reg(q, ch, ch.name, outer)
                elif isinstance(ch, ast.Lambda):
                    reg(owner_qual, ch, cls, outer)
                else:
                    reg(owner_qual, ch, cls, outer)

        reg(m.name, m.tree, None, None)
        for f in list(self.funcs.values()):
            if f.mod is not m:
                continue
            for n in iter_own(f.node):
                if isinstance(n, (ast.Assign, ast.AnnAssign, ast.AugAssign)):
                    tg = n.targets if isinstance(n, ast.Assign) else [n.target]
                    for t in tg:
                        f.locals.update(stored_names(t))
                elif isinstance(n, (ast.For, ast.AsyncFor)):
                    f.locals.update(stored_names(n.target))
                elif isinstance(n, ast.comprehension):
                    f.locals.update(stored_names(n.target))
                elif isinstance(n, (ast.With, ast.AsyncWith)):
                    for it in n.items:
                        if it.optional_vars is not None:
                            f.locals.update(stored_names(it.optional_vars))
                elif isinstance(n, ast.ExceptHandler) and n.name:
                    f.locals.add(n.name)
                elif isinstance(n, ast.NamedExpr):
                    f.locals.update(stored_names(n.target))
                elif isinstance(n, (ast.Import, ast.ImportFrom)):
                    for a in n.names:
                        f.locals.add(a.asname or a.name.split(".")[0])
                        if isinstance(n, ast.Import):
                            if a.asname:
                                f.local_imports[a.asname] = ("mod", a.name)
                            else:
                                r0 = a.name.split(".")[0]
                                f.local_imports[r0] = ("mod", r0)
                        elif a.name != "*":
                            f.local_imports[a.asname or a.name] = ("sym", self.abs_from(m, n), a.name)
                elif isinstance(n, ast.Lambda):
                    a = n.args
                    # lambda parameters shadow too (over-approximation: treated as function locals)
                    for x in a.posonlyargs + a.args + a.kwonlyargs:
                        f.locals.add(x.arg)
                    for x in (a.vararg, a.kwarg):
                        if x is not None:
                            f.locals.add(x.arg)
                elif isinstance(n, ast.Global):
                    pass
            for n in iter_own(f.node):
                if isinstance(n, ast.Global):
                    f.locals.difference_update(n.names)

    @staticmethod
    def abs_from(m, s):
        """absolute dotted module of an ImportFrom in module m"""
        base = s.module or ""
        if s.level:
            pkg = m.package()
            for _ in range(s.level - 1):
                pkg = pkg.rpartition(".")[0]
            base = (pkg + "." + base) if base else pkg
        return base

    # --------------------------------------------------------------- queries
    def nontest_modules(self):
        """sorted names of the non-test modules"""
        return sorted(n for n, m in self.modules.items() if not m.is_test)

    def nontest_funcs(self):
        """non-test functions sorted by qualname"""
        return [self.funcs[q] for q in sorted(self.funcs) if not self.funcs[q].mod.is_test]

    def func(self, qual):
        """anchor lookup: a vanished anchor is an analysis error, never a pass"""
        f = self.funcs.get(qual)
        if f is None:
            raise AnalysisError("anchor function vanished: {}".format(qual))
        return f

    def module(self, name):
        """anchor lookup for a module"""
        m = self.modules.get(name)
        if m is None:
            raise AnalysisError("anchor module vanished: {}".format(name))
        return m

    def enclosing_func(self, m, node):
        """innermost Func containing node (or None at module level)"""
        p = m.parents.get(node)
        while p is not None:
            if isinstance(p, (ast.FunctionDef, ast.AsyncFunctionDef)):
                for f in self.funcs.values():
                    if f.node is p:
                        return f
            p = m.parents.get(p)
        return None

    def enclosing_stmt(self, m, node):
        """nearest enclosing statement"""
        while node is not None and not isinstance(node, ast.stmt):
            node = m.parents.get(node)
        return node

    def _resolve_dotted(self, dotted, depth=0):
        """canonicalise a dotted path: follow re-exports / aliases inside the repo"""
        if depth > 12:
            return dotted
        if dotted in self.modules:
            return dotted
        mm, _, nm = dotted.rpartition(".")
        # find the longest module prefix
        parts = dotted.split(".")
        for i in range(len(parts) - 1, 0, -1):
            pre = ".".join(parts[:i])
            if pre in self.modules:
                m = self.modules[pre]
                rest = parts[i:]
                ent = m.top.get(rest[0])
                if ent is None:
                    return dotted
                if ent[0] in ("def", "class"):
                    return ".".join([ent[1]] + rest[1:])
                if ent[0] == "mod":
                    return self._resolve_dotted(".".join([ent[1]] + rest[1:]), depth + 1)
                if ent[0] == "sym":
                    return self._resolve_dotted(
                        ".".join([ent[1], ent[2]] + rest[1:]), depth + 1
                    )
                if ent[0] == "var":
                    # simple alias `a = b` at module level
                    stmts = ent[1]
                    if len(stmts) == 1 and len(rest) == 1:
                        v = getattr(stmts[0], "value", None)
                        if isinstance(v, (ast.Name, ast.Attribute)):
                            r = self.resolve(m, v, None, depth + 1)
                            if r is not None and r != dotted:
                                return r
                    return dotted
                return dotted
        del mm, nm
        return dotted

    def resolve(self, m, node, func=None, depth=0):
        """
        Resolve a Name / Attribute chain occurring in module m (inside `func` if given) to a
        canonical dotted name: `cdd.pkg.mod.symbol` for repository definitions,
        `os.path.join` / `builtins.open` for externals, or None when rooted at a local value.
        """
        chain = attr_chain(node)
        if chain is None:
            return None
        root = chain[0]
        f = func
        ent = None
        while f is not None:
            if root in f.nested and len(chain) == 1:
                return f.nested[root].qual
            if root in f.locals:
                ent = f.local_imports.get(root)
                if ent is None:
                    return None
                break
            f = f.outer
        if ent is None:
            ent = m.top.get(root)
        if ent is None:
            if root in BUILTINS:
                return ".".join(["builtins"] + chain)
            return None
        if ent[0] in ("def", "class"):
            return ".".join([ent[1]] + chain[1:])
        if ent[0] == "mod":
            return self._resolve_dotted(".".join([ent[1]] + chain[1:]), depth + 1)
        if ent[0] == "sym":
            return self._resolve_dotted(".".join([ent[1], ent[2]] + chain[1:]), depth + 1)
        if ent[0] == "var":
            if len(chain) == 1:
                return self._resolve_dotted(m.name + "." + root, depth + 1)
            return m.name + "." + ".".join(chain)
        return None

    def callee(self, m, call, func=None):
        """canonical name of the callee of a Call node (or None)"""
        return self.resolve(m, call.func, func)

    def bound_args(self, m, call, func=None):
        """
        {parameter name: argument expression} of a call whose callee resolves to a function of the package — by
        position and by keyword alike; keywords only when the callee is unknown. Starred arguments stop the
        positional binding.
        """
        out = {k.arg: k.value for k in call.keywords if k.arg}
        h = self.funcs.get(self.resolve(m, call.func, func) or "")
        if h is not None:
            pos = [a.arg for a in h.node.args.posonlyargs + h.node.args.args]
            if h.cls is not None and pos and isinstance(call.func, ast.Attribute):
                pos = pos[1:]
            for i, a in enumerate(call.args):
                if isinstance(a, ast.Starred) or i >= len(pos):
                    break
                out.setdefault(pos[i], a)
        return out

    def module_var(self, dotted):
        """(Mod, [assign stmts]) for `cdd.x.y.NAME` if it is a module-level variable"""
        mm, _, nm = dotted.rpartition(".")
        m = self.modules.get(mm)
        if m is None:
            return None
        ent = m.top.get(nm)
        if ent is None or ent[0] != "var":
            return None
        return m, ent[1]


# ------------------------------------------------------------------------- E2
class RefGraph(object):
    """
    Reference graph: edge f -> g when the body of f mentions a name resolving to function or
    class g (called or passed). Nested defs get an edge from their owner. Over-approximates calls.
    """

    def __init__(self, index, extra_edges=()):
        self.index = index
        self.succ = {q: set() for q in index.funcs}
        self.sites = {}
        for q, f in index.funcs.items():
            if f.outer is not None:
                self._add(f.outer.qual, q, f.node)
            for n in iter_own(f.node):
                if isinstance(n, (ast.Name, ast.Attribute)) and isinstance(
                    getattr(n, "ctx", None), ast.Load
                ):
                    par = f.mod.parents.get(n)
                    if isinstance(par, ast.Attribute) and par.value is n:
                        # only resolve maximal chains, but also try the prefix later
                        pass
                    r = index.resolve(f.mod, n, f)
                    if r is None:
                        continue
                    tgt = self._target(r)
                    if tgt is not None:
                        self._add(q, tgt, n)
        # methods: visit -> visit_* and class -> methods
        for cq, (m, cnode) in index.classes.items():
            meths = [
                cq + "." + b.name
                for b in cnode.body
                if isinstance(b, (ast.FunctionDef, ast.AsyncFunctionDef))
            ]
            for q in index.funcs:
                pass
            self.succ.setdefault(cq, set()).update(meths)
        for a, b in extra_edges:
            self.succ.setdefault(a, set()).add(b)

    def _target(self, r):
        idx = self.index
        if r in idx.funcs or r in idx.classes:
            return r
        # attribute on a function/class (`f.__name__`, `Cls.method`)
        pre = r
        while "." in pre:
            pre = pre.rpartition(".")[0]
            if pre in idx.funcs or pre in idx.classes:
                return pre
            if pre in idx.modules:
                return None
        return None

    def _add(self, a, b, node):
        self.succ.setdefault(a, set()).add(b)
        self.sites.setdefault((a, b), []).append(node)

    def reachable(self, starts):
        """set of nodes reachable from starts (inclusive)"""
        seen = set()
        stack = list(starts)
        while stack:
            x = stack.pop()
            if x in seen:
                continue
            seen.add(x)
            stack.extend(self.succ.get(x, ()))
        return seen

    def path(self, start, goal):
        """one shortest path start -> goal (list of quals) or None"""
        from collections import deque

        prev = {start: None}
        dq = deque([start])
        while dq:
            x = dq.popleft()
            if x == goal:
                out = []
                while x is not None:
                    out.append(x)
                    x = prev[x]
                return out[::-1]
            for y in sorted(self.succ.get(x, ())):
                if y not in prev:
                    prev[y] = x
                    dq.append(y)
        return None

    def sccs(self):
        """Tarjan; returns list of SCCs that are cycles (size>1 or self loop)"""
        index_counter = [0]
        stack = []
        lowlink = {}
        idx = {}
        on = set()
        result = []
        import sys

        sys.setrecursionlimit(10000)

        def strong(v):
            idx[v] = lowlink[v] = index_counter[0]
            index_counter[0] += 1
            stack.append(v)
            on.add(v)
            for w in self.succ.get(v, ()):
                if w not in idx:
                    strong(w)
                    lowlink[v] = min(lowlink[v], lowlink[w])
                elif w in on:
                    lowlink[v] = min(lowlink[v], idx[w])
            if lowlink[v] == idx[v]:
                comp = []
                while True:
                    w = stack.pop()
                    on.discard(w)
                    comp.append(w)
                    if w == v:
                        break
                if len(comp) > 1 or v in self.succ.get(v, ()):
                    result.append(sorted(comp))

        for v in sorted(self.succ):
            if v not in idx:
                strong(v)
        return result
