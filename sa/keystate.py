"""
Must-be-absent typestate of constant keys of one local dict (the dual of sa/shape.py's must-keys).

The parameter-entry translators (`param2json_schema_property`, `json_schema_property_to_param`,
`column_call_to_param`) rename keys in place: `d["type"] = d.pop("typ")`. A later test that still
reads the old key (`d.get("typ") != "str"`) is not a guard at all: on every path that reaches it the key
has been translated away, so the test is constant and whatever it was meant to protect is unprotected.

`stale_reads(fn_node, name)` walks the statement tree with a set A of keys that are CERTAINLY absent:
  del d[K] / d.pop(K ...)                     -> K joins A after the statement
  d[K] = v / d.update({K: ..}) / setdefault   -> K leaves A
  d.update(<unknown>) / d passed to a call    -> A is emptied (anything may have been added)
  if K in d / K not in d / d.get(K, S) is S   -> K joins A in the arm where the test says "absent"
  join of branches                            -> intersection (terminated paths do not count)
  loops, try handlers, nested function calls  -> A is emptied (conservative)
and reports every read of K (d[K], d.get(K ..), K in d, d.pop(K) without default) evaluated while K is in A.
"""

import ast

from .core import norm


def _const_key(e):
    return e.value if isinstance(e, ast.Constant) and isinstance(e.value, str) else None


def _constant_rounds(loop):
    """
    the bodies of `for <names> in <literal tuple/list>` — one copy per element, with every target name that the element
    binds to a constant replaced by it — or None when the loop is not of that form
    """
    import copy

    it = loop.iter
    if not isinstance(it, (ast.Tuple, ast.List)) or not it.elts or len(it.elts) > 8:
        return None
    tg = loop.target
    names = [tg] if isinstance(tg, ast.Name) else list(tg.elts) if isinstance(tg, (ast.Tuple, ast.List)) else None
    if names is None or not all(isinstance(n, ast.Name) for n in names):
        return None
    stored = {n.id for b in loop.body for n in ast.walk(b) if isinstance(n, ast.Name) and isinstance(n.ctx, ast.Store)}
    if stored & {n.id for n in names}:
        return None
    out = []
    for e in it.elts:
        vals = [e] if isinstance(tg, ast.Name) else list(e.elts) if isinstance(e, (ast.Tuple, ast.List)) and len(e.elts) == len(names) else None
        if vals is None:
            return None
        bind = {n.id: v for n, v in zip(names, vals) if isinstance(v, ast.Constant)}

        class Sub(ast.NodeTransformer):
            def visit_Name(self, x, _b=bind):
                if x.id in _b and isinstance(x.ctx, ast.Load):
                    return ast.copy_location(copy.deepcopy(_b[x.id]), x)
                return x

        out.append([Sub().visit(copy.deepcopy(b)) for b in loop.body])
    return out


class _Interp(object):
    def __init__(self, name, nested, keys_of_call=None, effect_of_call=None):
        self.d = name
        self.nested = nested
        self.found = []
        # optional summary: the constant keys of the dict a call returns (set) or None when unknown
        self.keys_of_call = keys_of_call or (lambda call: None)
        # optional summary: what a callee does to the dict it is handed: (keys certainly removed, keys possibly added)
        # or None when unknown
        self.effect_of_call = effect_of_call or (lambda call, name: None)
        # for building such a summary of THIS function: every key possibly added, whether anything unknown may have
        # been added, and the absent-set at every exit
        self.added_all = set()
        self.removed_all = set()
        self.cleared = False
        self.exits = []

    def is_d(self, e):
        return isinstance(e, ast.Name) and e.id == self.d

    # ------------------------------------------------------------- expressions
    def reads(self, e, absent):
        """report reads of certainly-absent keys inside expression / statement header `e`"""
        for n in ast.walk(e):
            k = None
            if isinstance(n, ast.Subscript) and self.is_d(n.value) and isinstance(n.ctx, ast.Load):
                k = _const_key(n.slice)
            elif isinstance(n, ast.Call) and isinstance(n.func, ast.Attribute) and self.is_d(n.func.value) and n.args:
                if n.func.attr == "get" or (n.func.attr == "pop" and len(n.args) == 1):
                    k = _const_key(n.args[0])
            elif isinstance(n, ast.Compare) and len(n.ops) == 1 and isinstance(n.ops[0], (ast.In, ast.NotIn)) and self.is_d(n.comparators[0]):
                k = _const_key(n.left)
            if k is not None and k in absent:
                self.found.append((n, k))

    def effects(self, stmt, absent):
        """update `absent` with the removals / additions performed by simple statement `stmt`"""
        removed, added, clear = set(), set(), False
        # removals that are only conditionally evaluated inside the statement (right operand of and/or, an arm of a
        # conditional expression, inside a comprehension or lambda) are possible, not certain
        maybe = set()
        stack = [(stmt, False)]
        while stack:
            node_, cond_ = stack.pop()
            if cond_:
                maybe.add(id(node_))
            for fld, val in ast.iter_fields(node_):
                kids = val if isinstance(val, list) else [val]
                for i, c in enumerate(kids):
                    if not isinstance(c, ast.AST):
                        continue
                    cc = cond_
                    if isinstance(node_, ast.BoolOp) and fld == "values" and i > 0:
                        cc = True
                    elif isinstance(node_, ast.IfExp) and fld in ("body", "orelse"):
                        cc = True
                    elif isinstance(node_, ast.Lambda):
                        cc = True
                    elif isinstance(node_, (ast.ListComp, ast.SetComp, ast.DictComp, ast.GeneratorExp)):
                        # the first iterable is evaluated once, unconditionally, in the enclosing scope (for a generator
                        # expression: when it is created); everything else runs per element, if at all
                        first_iter = node_.generators[0].iter if node_.generators else None
                        if not (fld == "generators" and i == 0):
                            cc = True
                        elif first_iter is not None:
                            # push the comprehension node's children selectively: iter keeps cond_, the rest is conditional
                            for fld2, val2 in ast.iter_fields(c):
                                for c2 in (val2 if isinstance(val2, list) else [val2]):
                                    if isinstance(c2, ast.AST):
                                        stack.append((c2, cond_ if fld2 == "iter" else True))
                            continue
                    stack.append((c, cc))
        certain_removed = set()
        for n in ast.walk(stmt):
            if isinstance(n, (ast.Lambda, ast.FunctionDef, ast.AsyncFunctionDef)) and n is not stmt:
                continue
            if isinstance(n, ast.Delete):
                for t in n.targets:
                    if isinstance(t, ast.Subscript) and self.is_d(t.value) and _const_key(t.slice) is not None:
                        removed.add(_const_key(t.slice))
                        certain_removed.add(_const_key(t.slice))
            elif isinstance(n, ast.Subscript) and self.is_d(n.value) and isinstance(n.ctx, ast.Store):
                k = _const_key(n.slice)
                if k is None:
                    clear = True
                else:
                    added.add(k)
            elif isinstance(n, ast.Call):
                f = n.func
                if isinstance(f, ast.Attribute) and self.is_d(f.value):
                    if f.attr == "pop" and n.args and _const_key(n.args[0]) is not None:
                        removed.add(_const_key(n.args[0]))
                        if id(n) not in maybe:
                            certain_removed.add(_const_key(n.args[0]))
                    elif f.attr == "setdefault" and n.args and _const_key(n.args[0]) is not None:
                        added.add(_const_key(n.args[0]))
                    elif f.attr == "update":
                        lit = n.args[0] if n.args else None
                        if isinstance(lit, ast.Dict) and all(_const_key(k) is not None for k in lit.keys if k is not None) and None not in lit.keys:
                            added.update(_const_key(k) for k in lit.keys)
                            added.update(k.arg for k in n.keywords if k.arg)
                        elif lit is None and all(k.arg for k in n.keywords):
                            added.update(k.arg for k in n.keywords)
                        elif isinstance(lit, ast.Call) and self.keys_of_call(lit) is not None:
                            added.update(self.keys_of_call(lit))
                        else:
                            clear = True
                    elif f.attr in ("clear", "popitem", "__setitem__", "__delitem__"):
                        clear = True
                else:
                    # d handed to another function (positional, keyword, or a nested helper that closes over it)
                    if any(self.is_d(a) for a in n.args) or any(self.is_d(k.value) for k in n.keywords):
                        eff = self.effect_of_call(n, self.d)
                        if eff is None:
                            clear = True
                        else:
                            removed.update(eff[0])
                            if id(n) not in maybe:
                                certain_removed.update(eff[0])
                            added.update(eff[1])
                            self.removed_all |= eff[2]
                    if isinstance(f, ast.Name) and f.id in self.nested:
                        # a nested helper that closes over the dict: its own summary (it cannot rebind the name
                        # without `nonlocal`, which call_effect refuses)
                        node_ = self.nested[f.id] if isinstance(self.nested, dict) else None
                        eff = None
                        if node_ is not None and not any(isinstance(x, ast.Nonlocal) for x in ast.walk(node_)) and self.d not in {a.arg for a in node_.args.args + node_.args.kwonlyargs}:
                            eff = call_effect(node_, self.d, self.keys_of_call, None)
                        if eff is None:
                            clear = True
                        else:
                            removed.update(eff[0])
                            if id(n) not in maybe:
                                certain_removed.update(eff[0])
                            added.update(eff[1])
                            self.removed_all |= eff[2]
        self.added_all |= added
        self.removed_all |= removed
        if clear:
            self.cleared = True
            return set()
        # a callee summary may both add and remove a key (on different paths): "possibly added" wins
        return (absent | certain_removed) - added

    def cond(self, t):
        """(keys certainly absent when t is true, keys certainly absent when t is false)"""
        if isinstance(t, ast.UnaryOp) and isinstance(t.op, ast.Not):
            a, b = self.cond(t.operand)
            return b, a
        if isinstance(t, ast.BoolOp):
            parts = [self.cond(v) for v in t.values]
            if isinstance(t.op, ast.And):
                return set().union(*(p[0] for p in parts)), set()
            return set(), set().union(*(p[1] for p in parts))
        if isinstance(t, ast.Compare) and len(t.ops) == 1:
            op, left, right = t.ops[0], t.left, t.comparators[0]
            if isinstance(op, (ast.In, ast.NotIn)) and self.is_d(right) and _const_key(left) is not None:
                k = {_const_key(left)}
                return (set(), k) if isinstance(op, ast.In) else (k, set())
            # d.get(K, S) is S / is not S   with S a plain name used as a sentinel
            if isinstance(op, (ast.Is, ast.IsNot)):
                for call, other in ((left, right), (right, left)):
                    if (
                        isinstance(call, ast.Call)
                        and isinstance(call.func, ast.Attribute)
                        and call.func.attr == "get"
                        and self.is_d(call.func.value)
                        and len(call.args) == 2
                        and _const_key(call.args[0]) is not None
                        and isinstance(call.args[1], ast.Name)
                        and norm(call.args[1]) == norm(other)
                    ):
                        k = {_const_key(call.args[0])}
                        return (k, set()) if isinstance(op, ast.Is) else (set(), k)
        return set(), set()

    # -------------------------------------------------------------- statements
    def block(self, stmts, absent):
        """returns the absent-set after the block, or None when every path leaves the function"""
        for s in stmts:
            if absent is None:
                return None
            absent = self.stmt(s, absent)
        return absent

    def stmt(self, s, absent):
        if isinstance(s, (ast.FunctionDef, ast.AsyncFunctionDef, ast.ClassDef)):
            return absent
        if isinstance(s, ast.If):
            self.reads(s.test, absent)
            absent = self.effects(s.test, absent)
            t, f = self.cond(s.test)
            a = self.block(s.body, absent | t)
            b = self.block(s.orelse, absent | f)
            if a is None:
                return b
            if b is None:
                return a
            return a & b
        if isinstance(s, ast.For) and not s.orelse:
            rounds = _constant_rounds(s)
            if rounds is not None and not any(isinstance(x, (ast.Break, ast.Continue)) for b in s.body for x in ast.walk(b)):
                # for k in ("a", "b"): ...   /   for short, long in (("PK", "primary_key"), (<expr>, "foreign_key")): ...
                # — a loop over a literal sequence is the sequence of its bodies with the constant names substituted
                self.reads(s.iter, absent)
                for body in rounds:
                    absent = self.block(body, absent)
                    if absent is None:
                        return None
                return absent
        if isinstance(s, (ast.For, ast.AsyncFor, ast.While)):
            head = s.iter if not isinstance(s, ast.While) else s.test
            self.reads(head, absent)
            if not isinstance(s, ast.While):
                absent = self.effects(ast.Expr(value=head), absent)  # the iterable is evaluated once, before the loop
            # what the body may add to the dict (in any number of rounds): only those keys stop being certainly absent;
            # removals inside the body are possible, not certain
            saved_added, saved_cleared = self.added_all, self.cleared
            self.added_all, self.cleared = set(), False
            self.block(s.body, set())
            self.block(s.orelse, set())
            body_added, body_cleared = self.added_all, self.cleared
            self.added_all, self.cleared = saved_added | body_added, saved_cleared or body_cleared
            if body_cleared:
                return set()
            return set(absent) - body_added
        if isinstance(s, (ast.With, ast.AsyncWith)):
            for it in s.items:
                self.reads(it.context_expr, absent)
            r = self.block(s.body, absent)
            # a suppressing context manager may skip the rest of the body: keep only what held before
            return (r & absent) if r is not None else absent
        if isinstance(s, ast.Try):
            self.block(s.body, absent)
            for h in s.handlers:
                self.block(h.body, set())
            self.block(s.orelse, set())
            self.block(s.finalbody, set())
            return set()
        if isinstance(s, ast.Assert):
            # `assert K not in d` where K is certainly absent restates what is known: harmless (unlike `if`, nothing is
            # left unguarded by a constant-true assertion); anything else in an assertion is read as usual
            t = s.test
            if not (isinstance(t, ast.Compare) and len(t.ops) == 1 and isinstance(t.ops[0], ast.NotIn) and self.is_d(t.comparators[0]) and _const_key(t.left) in absent):
                self.reads(s, absent)
            return self.effects(s, absent)
        if isinstance(s, (ast.Return, ast.Raise)):
            self.reads(s, absent)
            if isinstance(s, ast.Return):
                self.exits.append(self.effects(s, absent))
            return None
        self.reads(s, absent)
        return self.effects(s, absent)


def call_effect(fn_node, param, keys_of_call=None, effect_of_call=None):
    """
    summary of what function `fn_node` does to the dict it receives as `param`:
    (keys certainly absent at every normal exit, keys it may add) — or None when it may add unknown keys
    (non-constant key, update(<unknown>), hands the dict on to something unknown, rebinds the parameter).
    """
    for n in ast.walk(fn_node):
        if isinstance(n, ast.Name) and n.id == param and isinstance(n.ctx, (ast.Store, ast.Del)):
            return None
    nested = {n.name: n for n in ast.walk(fn_node) if isinstance(n, (ast.FunctionDef, ast.AsyncFunctionDef)) and n is not fn_node}
    it = _Interp(param, nested, keys_of_call, effect_of_call)
    body = [s for s in fn_node.body if not (isinstance(s, ast.Expr) and isinstance(s.value, ast.Constant))]
    end = it.block(body, set())
    if it.cleared:
        return None
    exits = list(it.exits) + ([end] if end is not None else [])
    if not exits:
        return (set(), set(it.added_all), set(it.removed_all))
    must = set(exits[0])
    for e in exits[1:]:
        must &= e
    return (must - it.added_all, set(it.added_all), set(it.removed_all))


def survivors(fn_node, name, keys_of_call=None, effect_of_call=None):
    """
    Keys of local dict `name` that the function (or a helper it hands the dict to) removes on SOME path but that are
    not certainly absent at EVERY normal exit: a key the function treats as foreign vocabulary can survive.
    (removed somewhere, certainly absent at every exit, whether unknown keys may have been added)
    """
    nested = {n.name: n for n in ast.walk(fn_node) if isinstance(n, (ast.FunctionDef, ast.AsyncFunctionDef)) and n is not fn_node}
    it = _Interp(name, nested, keys_of_call, effect_of_call)
    body = [s for s in fn_node.body if not (isinstance(s, ast.Expr) and isinstance(s.value, ast.Constant))]
    end = it.block(body, set())
    exits = list(it.exits) + ([end] if end is not None else [])
    if not exits:
        return set(it.removed_all), set(it.removed_all), it.cleared
    must = set(exits[0])
    for e in exits[1:]:
        must &= e
    return set(it.removed_all), must, it.cleared


def stale_reads(fn_node, name, keys_of_call=None, effect_of_call=None):
    """[(node, key)] reads of keys of local dict `name` that are certainly absent where they are read"""
    nested = {n.name: n for n in ast.walk(fn_node) if isinstance(n, (ast.FunctionDef, ast.AsyncFunctionDef)) and n is not fn_node}
    it = _Interp(name, nested, keys_of_call, effect_of_call)
    body = [s for s in fn_node.body if not (isinstance(s, ast.Expr) and isinstance(s.value, ast.Constant))]
    it.block(body, set())
    # de-duplicate (a read inside a Compare is also found as the inner call)
    seen, out = set(), []
    for n, k in it.found:
        key = (n.lineno, n.col_offset, k)
        if key not in seen:
            seen.add(key)
            out.append((n, k))
    return out


_SELF_TEST = '''
def bad(param):
    name, d = param
    if d.get("typ") == "x":
        del d["typ"]
    elif d.get("typ", ast) is not ast:
        d["type"] = d.pop("typ")
    if isinstance(d.get("default"), str) and d.get("typ") != "str":
        d["default"] = 1
    return name, d

def good(param):
    name, d = param
    if "typ" in d:
        d["type"] = d.pop("typ")
    if d.get("type") == "str":
        d["typ"] = "x"
    return d.get("typ")
'''


def self_test():
    """the interpreter on its own two examples: exactly one stale read, in `bad`"""
    t = ast.parse(_SELF_TEST)
    bad = stale_reads(t.body[0], "d")
    good = stale_reads(t.body[1], "d")
    return len(bad) == 1 and bad[0][1] == "typ" and not good


def summaries(index, f):
    """(keys_of_call, effect_of_call) for calls made inside function f: summaries of the package functions it calls"""
    from .core import iter_own

    def keys_of_call_in(_f, call):
        """constant keys of the dict literal(s) a package function returns, when that is all it returns"""
        h = index.funcs.get(index.callee(_f.mod, call, _f) or "")
        if h is None:
            return None
        keys = set()
        rets = [r for r in iter_own(h.node) if isinstance(r, ast.Return)]
        if not rets:
            return None
        for r in rets:
            v = r.value
            if isinstance(v, ast.Dict) and None not in v.keys and all(isinstance(k, ast.Constant) and isinstance(k.value, str) for k in v.keys):
                keys.update(k.value for k in v.keys)
            elif isinstance(v, ast.Call) and isinstance(v.func, ast.Name) and v.func.id == "dict" and not v.args and all(k.arg for k in v.keywords):
                keys.update(k.arg for k in v.keywords)
            else:
                return None
        return keys

    depth = [0]

    def effect_of_call(call, name):
        """what a package function does to the dict `name` handed to it (one parameter, bound by position or keyword)"""
        h = index.funcs.get(index.callee(f.mod, call, f) or "")
        if h is None or depth[0] >= 2:
            return None
        bound = [p_ for p_, a_ in index.bound_args(f.mod, call, f).items() if isinstance(a_, ast.Name) and a_.id == name]
        n_passed = sum(1 for a_ in list(call.args) + [k_.value for k_ in call.keywords] if isinstance(a_, ast.Name) and a_.id == name)
        if len(bound) != 1 or n_passed != 1 or bound[0] not in h.params:
            return None
        depth[0] += 1
        try:
            return call_effect(h.node, bound[0], lambda c, _h=h: keys_of_call_in(_h, c), None)
        finally:
            depth[0] -= 1

    return (lambda call: keys_of_call_in(f, call)), effect_of_call


def stale_rule(ctx, rule, funcs, what):
    """
    run the interpreter over every local dict with constant string keys of `funcs`; one obligation per
    (function, dict); zero findings expected, so the built-in examples are re-checked on every run
    """
    from .core import iter_own, short

    ctx.need(self_test(), "the key-typestate interpreter disagrees with its own examples")
    n = 0
    for f in funcs:
        names = set()
        for x in iter_own(f.node):
            if isinstance(x, ast.Subscript) and isinstance(x.value, ast.Name) and isinstance(x.slice, ast.Constant) and isinstance(x.slice.value, str):
                names.add(x.value.id)
            if isinstance(x, ast.Call) and isinstance(x.func, ast.Attribute) and x.func.attr in ("pop", "get") and isinstance(x.func.value, ast.Name) and x.args and isinstance(x.args[0], ast.Constant) and isinstance(x.args[0].value, str):
                names.add(x.func.value.id)
        keys_of_call, effect_of_call = summaries(ctx.index, f)

        for nm in sorted(names):
            n += 1
            found = stale_reads(f.node, nm, keys_of_call, effect_of_call)
            if not found:
                ctx.ob(rule, f, "no read of a translated-away key of `{}`".format(nm), True, line=f.node.lineno)
            for node, k in found:
                ctx.ob(
                    rule,
                    f,
                    node,
                    False,
                    "`{}` reads key {!r} of `{}`, which has been removed (popped / deleted / renamed) on every path that reaches "
                    "this point: the test is constant, so {} it was meant to guard is unguarded".format(short(node, 50), k, nm, what),
                    line=node.lineno,
                )
    ctx.count("key_typestate_dicts", n)
    return n
