"""Static analysis engines for offscale/cdd-python (standard library `ast` only)."""
