"""
Character-set abstract interpretation (flow-insensitive, inter-procedural, guard-refined).

Abstract value of any expression = the set of characters that strings reachable from its value
may contain (containers are flattened: the charset of a list is the union over its elements).
TOP = unknown. The token WS stands for "any whitespace character" (str.isspace()).

Used by C17.charset to bound the alphabet of the one doc-derived string that reaches `eval`.
"""

import ast
import string as _string

from .core import iter_own, short
from .fold import ModuleEnv, Unknown
from .walker import GuardWalker

TOP = "TOP"
WS = "<WS>"
EMPTY = frozenset()
BRACES = frozenset("{}")

STDLIB_CONSTS = {
    "string.digits": _string.digits,
    "string.ascii_letters": _string.ascii_letters,
    "string.ascii_lowercase": _string.ascii_lowercase,
    "string.ascii_uppercase": _string.ascii_uppercase,
    "string.hexdigits": _string.hexdigits,
    "string.octdigits": _string.octdigits,
    "string.punctuation": _string.punctuation,
    "string.whitespace": _string.whitespace,
    "string.printable": _string.printable,
    "os.path.sep": "/",
    "os.extsep": ".",
    "os.linesep": "\n",
}

PASS_THROUGH = frozenset(
    (
        "builtins.list builtins.tuple builtins.iter builtins.reversed builtins.sorted "
        "builtins.frozenset builtins.set builtins.zip builtins.enumerate itertools.chain "
        "itertools.chain.from_iterable itertools.islice itertools.tee collections.deque "
        "collections.Counter collections.OrderedDict builtins.dict typing.cast builtins.min "
        "builtins.max itertools.zip_longest builtins.str builtins.repr "
        "cdd.shared.ast_utils.deduplicate cdd.shared.pure_utils.sliding_window "
        "cdd.shared.pure_utils.identity"
    ).split()
)
ELEMENTWISE_FILTERS = frozenset(
    "builtins.filter itertools.filterfalse itertools.takewhile itertools.dropwhile".split()
)
NO_CHARS = frozenset(
    (
        "builtins.len builtins.sum builtins.any builtins.all builtins.isinstance builtins.bool "
        "builtins.int builtins.float builtins.abs builtins.hasattr builtins.callable builtins.id "
        "builtins.range builtins.slice cdd.shared.pure_utils.count_iter_items keyword.iskeyword "
        "operator.contains operator.eq operator.ne builtins.print builtins.type builtins.ord"
    ).split()
)
STR_KEEP = frozenset(
    (
        "strip lstrip rstrip split rsplit partition rpartition splitlines copy pop items keys "
        "values __getitem__ expandtabs removeprefix removesuffix zfill ljust rjust center"
    ).split()
)
STR_CASE = frozenset("lower upper title capitalize swapcase casefold".split())
STR_NOCHARS = frozenset(
    (
        "startswith endswith isspace isidentifier isdigit isalpha isalnum isdecimal isnumeric "
        "islower isupper count find rfind index rindex __contains__ append extend insert add "
        "update clear remove sort reverse setdefault"
    ).split()
)
MUTATING = frozenset("append extend insert add update setdefault appendleft".split())


def union(*vals):
    """lattice join"""
    out = set()
    for v in vals:
        if v == TOP:
            return TOP
        out |= v
    return frozenset(out)


def intersect(a, b):
    """lattice meet (WS-aware)"""
    if a == TOP:
        return b
    if b == TOP:
        return a
    out = set()
    for c in a:
        if c in b or (c != WS and c.isspace() and WS in b):
            out.add(c)
    for c in b:
        if c != WS and c.isspace() and WS in a:
            out.add(c)
    return frozenset(out)


def of_value(v):
    """charset of a concrete folded Python value"""
    if isinstance(v, str):
        return frozenset(v)
    if isinstance(v, bytes):
        return frozenset(v.decode("latin1"))
    if isinstance(v, dict):
        return union(*([of_value(k) for k in v] + [of_value(x) for x in v.values()]))
    if isinstance(v, (list, tuple, set, frozenset)):
        return union(*[of_value(x) for x in v]) if v else EMPTY
    if isinstance(v, (int, float)) and not isinstance(v, bool):
        return frozenset(repr(v))
    if v is None or isinstance(v, bool):
        return EMPTY
    return TOP


def show(cs):
    """printable form"""
    if cs == TOP:
        return "TOP (unbounded)"
    return "".join(sorted(c for c in cs if c != WS and not c.isspace())) + (
        " +whitespace" if any(c == WS or c.isspace() for c in cs) else ""
    )


class CharsetInterp(object):
    """the interpreter over a closed set of functions"""

    def __init__(self, index, funcs, entry_params):
        """
        :param funcs: list of Func analysed together
        :param entry_params: {(func qual, param): charset} seeds (TOP for attacker-controlled)
        """
        self.index = index
        self.funcs = {f.qual: f for f in funcs}
        self.vars = dict(entry_params)
        self.rets = {}
        self.tuple_rets = {}
        self.env = ModuleEnv(index)
        self.facts = {}
        self.unknown_calls = []
        self.changed = False
        self.refined_sites = []
        for f in funcs:
            fa = {}

            def on_expr(n, facts, _fa=fa):
                if isinstance(n, ast.Name):
                    _fa[id(n)] = facts

            GuardWalker(on_expr=on_expr).walk_function(f.node)
            self.facts[f.qual] = fa
            rets = [n for n in iter_own(f.node) if isinstance(n, ast.Return) and n.value is not None]
            if rets and all(
                isinstance(r.value, ast.Tuple)
                and len(r.value.elts) == len(rets[0].value.elts)
                and not any(isinstance(x, ast.Starred) for x in r.value.elts)
                for r in rets
            ):
                self.tuple_rets[f.qual] = [EMPTY] * len(rets[0].value.elts)

    # ------------------------------------------------------------- state
    def get(self, f, name):
        """current charset of variable"""
        return self.vars.get((f.qual, name), EMPTY)

    def add(self, f, name, cs):
        """join cs into variable"""
        key = (f.qual, name)
        old = self.vars.get(key, EMPTY)
        new = union(old, cs)
        if new != old:
            self.vars[key] = new
            self.changed = True

    def add_ret(self, f, cs):
        """join into return charset"""
        old = self.rets.get(f.qual, EMPTY)
        new = union(old, cs)
        if new != old:
            self.rets[f.qual] = new
            self.changed = True

    # --------------------------------------------------------------- run
    def run(self, max_rounds=40):
        """iterate to fixpoint"""
        for _ in range(max_rounds):
            self.changed = False
            self.unknown_calls = []
            self.refined_sites = []
            for f in self.funcs.values():
                self.exec_block(f, f.node.body, {})
            if not self.changed:
                return True
        return False

    # -------------------------------------------------------- statements
    def exec_block(self, f, stmts, loc):
        for s in stmts:
            self.exec_stmt(f, s, loc)

    def bind_target(self, f, t, cs, loc):
        if isinstance(t, ast.Name):
            self.add(f, t.id, cs)
        elif isinstance(t, (ast.Tuple, ast.List)):
            for e in t.elts:
                self.bind_target(f, e, cs, loc)
        elif isinstance(t, ast.Starred):
            self.bind_target(f, t.value, cs, loc)
        elif isinstance(t, (ast.Subscript, ast.Attribute)):
            root = t
            while isinstance(root, (ast.Subscript, ast.Attribute)):
                root = root.value
            if isinstance(root, ast.Name):
                self.add(f, root.id, cs)

    def exec_stmt(self, f, s, loc):
        if isinstance(s, (ast.Assign, ast.AnnAssign, ast.AugAssign)):
            if s.value is None:
                return
            cs = self.cs(f, s.value, loc)
            for t in s.targets if isinstance(s, ast.Assign) else [s.target]:
                if isinstance(t, ast.Tuple) and isinstance(s.value, ast.Call):
                    callee = self.index.callee(f.mod, s.value, f)
                    tr = self.tuple_rets.get(callee)
                    if tr is not None and len(tr) == len(t.elts):
                        for el, c in zip(t.elts, tr):
                            self.bind_target(f, el, c, loc)
                        continue
                self.bind_target(f, t, cs, loc)
        elif isinstance(s, ast.Expr):
            self.cs(f, s.value, loc)
        elif isinstance(s, ast.Return):
            if s.value is not None:
                self.add_ret(f, self.cs(f, s.value, loc))
                tr = self.tuple_rets.get(f.qual)
                if tr is not None:
                    for i, el in enumerate(s.value.elts):
                        new = union(tr[i], self.cs(f, el, loc))
                        if new != tr[i]:
                            tr[i] = new
                            self.changed = True
        elif isinstance(s, (ast.For, ast.AsyncFor)):
            self.bind_target(f, s.target, self.cs(f, s.iter, loc), loc)
            self.exec_block(f, s.body, loc)
            self.exec_block(f, s.orelse, loc)
        elif isinstance(s, ast.While):
            self.cs(f, s.test, loc)
            self.exec_block(f, s.body, loc)
            self.exec_block(f, s.orelse, loc)
        elif isinstance(s, ast.If):
            self.cs(f, s.test, loc)
            self.exec_block(f, s.body, loc)
            self.exec_block(f, s.orelse, loc)
        elif isinstance(s, (ast.With, ast.AsyncWith)):
            for it in s.items:
                cs = self.cs(f, it.context_expr, loc)
                if it.optional_vars is not None:
                    self.bind_target(f, it.optional_vars, cs, loc)
            self.exec_block(f, s.body, loc)
        elif isinstance(s, ast.Try):
            self.exec_block(f, s.body, loc)
            for h in s.handlers:
                if h.name:
                    self.add(f, h.name, TOP)
                self.exec_block(f, h.body, loc)
            self.exec_block(f, s.orelse, loc)
            self.exec_block(f, s.finalbody, loc)
        elif isinstance(s, (ast.Raise, ast.Assert)):
            for c in ast.iter_child_nodes(s):
                if isinstance(c, ast.expr):
                    self.cs(f, c, loc)
        elif isinstance(s, (ast.FunctionDef, ast.AsyncFunctionDef, ast.ClassDef)):
            pass
        elif isinstance(s, (ast.Delete, ast.Pass, ast.Break, ast.Continue, ast.Global, ast.Nonlocal, ast.Import, ast.ImportFrom)):
            pass
        else:
            self.unknown_calls.append((f.qual, "statement " + type(s).__name__))

    # ------------------------------------------------------- expressions
    def refine(self, f, name_node, cs):
        """restrict cs by the guard facts that dominate this use of the name"""
        facts = self.facts[f.qual].get(id(name_node))
        if not facts:
            return cs
        out = cs
        hit = False
        for text, truth in facts.items():
            if not truth:
                continue
            try:
                expr = ast.parse(text, mode="eval").body
            except SyntaxError:
                continue
            if not any(isinstance(n, ast.Name) and n.id == name_node.id for n in ast.walk(expr)):
                continue
            c = self.constraint(f, expr, name_node.id)
            if c is not None:
                out = intersect(out, c)
                hit = True
        if hit:
            self.refined_sites.append((f.qual, name_node.id, name_node.lineno, out))
        return out

    def constraint(self, f, e, name):
        """characters `name` may be made of when e is true; None = no constraint"""
        if isinstance(e, ast.BoolOp):
            parts = [self.constraint(f, v, name) for v in e.values]
            if isinstance(e.op, ast.Or):
                if any(p is None for p in parts):
                    return None
                return union(*parts)
            known = [p for p in parts if p is not None]
            if not known:
                return None
            out = known[0]
            for p in known[1:]:
                out = intersect(out, p)
            return out
        if isinstance(e, ast.Compare) and len(e.ops) == 1 and isinstance(e.left, ast.Name) and e.left.id == name:
            op, rhs = e.ops[0], e.comparators[0]
            if isinstance(op, ast.In):
                c = self.cs(f, rhs, {}, refine=False)
                return None if c == TOP else c
            if isinstance(op, ast.Eq) and isinstance(rhs, ast.Constant) and isinstance(rhs.value, str):
                return frozenset(rhs.value)
            return None
        if (
            isinstance(e, ast.Call)
            and isinstance(e.func, ast.Attribute)
            and isinstance(e.func.value, ast.Name)
            and e.func.value.id == name
            and not e.args
        ):
            if e.func.attr == "isspace":
                return frozenset((WS,))
            if e.func.attr in ("isdigit", "isdecimal") :
                return None  # unicode digits: not bounded to ASCII
            return None
        return None

    def const_name(self, f, node):
        """fold a module-level / stdlib constant reference; returns charset or None"""
        r = self.index.resolve(f.mod, node, f)
        if r is None:
            return None
        if r in STDLIB_CONSTS:
            return frozenset(STDLIB_CONSTS[r])
        if r.startswith("cdd."):
            try:
                return of_value(self.env.value(r))
            except Unknown:
                if self.index.module_var(r) is not None:
                    return TOP
                return None
        if r.startswith("builtins."):
            return EMPTY
        return None

    def cs(self, f, e, loc, refine=True):
        """charset of expression e in function f (loc: lambda/comprehension bindings)"""
        if e is None:
            return EMPTY
        if isinstance(e, ast.Constant):
            return of_value(e.value) if isinstance(e.value, (str, bytes)) else EMPTY
        if isinstance(e, ast.Name):
            if e.id in loc:
                return loc[e.id]
            if e.id in f.locals or e.id in f.params:
                v = self.get(f, e.id)
                return self.refine(f, e, v) if refine else v
            c = self.const_name(f, e)
            return EMPTY if c is None else c
        if isinstance(e, ast.Attribute):
            c = self.const_name(f, e)
            if c is not None:
                return c
            return self.cs(f, e.value, loc, refine)
        if isinstance(e, ast.Subscript):
            return self.cs(f, e.value, loc, refine)
        if isinstance(e, ast.Starred):
            return self.cs(f, e.value, loc, refine)
        if isinstance(e, (ast.Tuple, ast.List, ast.Set)):
            return union(*[self.cs(f, x, loc, refine) for x in e.elts]) if e.elts else EMPTY
        if isinstance(e, ast.Dict):
            return union(
                *[self.cs(f, x, loc, refine) for x in list(e.keys) + list(e.values) if x is not None]
            ) if e.values else EMPTY
        if isinstance(e, ast.JoinedStr):
            return union(*[self.cs(f, x, loc, refine) for x in e.values]) if e.values else EMPTY
        if isinstance(e, ast.FormattedValue):
            return self.cs(f, e.value, loc, refine)
        if isinstance(e, ast.IfExp):
            self.cs(f, e.test, loc, refine)
            return union(self.cs(f, e.body, loc, refine), self.cs(f, e.orelse, loc, refine))
        if isinstance(e, ast.BoolOp):
            return union(*[self.cs(f, x, loc, refine) for x in e.values])
        if isinstance(e, ast.Compare):
            self.cs(f, e.left, loc, refine)
            for c in e.comparators:
                self.cs(f, c, loc, refine)
            return EMPTY
        if isinstance(e, ast.UnaryOp):
            v = self.cs(f, e.operand, loc, refine)
            return EMPTY if isinstance(e.op, ast.Not) else v
        if isinstance(e, ast.BinOp):
            return union(self.cs(f, e.left, loc, refine), self.cs(f, e.right, loc, refine))
        if isinstance(e, ast.NamedExpr):
            v = self.cs(f, e.value, loc, refine)
            self.bind_target(f, e.target, v, loc)
            return v
        if isinstance(e, ast.Lambda):
            return EMPTY
        if isinstance(e, (ast.ListComp, ast.SetComp, ast.GeneratorExp, ast.DictComp)):
            l2 = dict(loc)
            for g in e.generators:
                it = self.cs(f, g.iter, l2, refine)
                for n in ast.walk(g.target):
                    if isinstance(n, ast.Name):
                        l2[n.id] = it
                for c in g.ifs:
                    self.cs(f, c, l2, refine)
            if isinstance(e, ast.DictComp):
                return union(self.cs(f, e.key, l2, refine), self.cs(f, e.value, l2, refine))
            return self.cs(f, e.elt, l2, refine)
        if isinstance(e, ast.Slice):
            return EMPTY
        if isinstance(e, ast.Call):
            return self.call(f, e, loc, refine)
        if isinstance(e, (ast.Await, ast.Yield, ast.YieldFrom)):
            return TOP
        return TOP

    def apply(self, f, fn, args, loc, refine):
        """charset of fn(*args) where args are charsets"""
        if isinstance(fn, ast.Lambda):
            l2 = dict(loc)
            names = [a.arg for a in fn.args.posonlyargs + fn.args.args]
            for i, nme in enumerate(names):
                l2[nme] = args[i] if i < len(args) else EMPTY
            return self.cs(f, fn.body, l2, refine)
        if isinstance(fn, ast.Attribute):
            if fn.attr in ("__getitem__", "get", "__contains__"):
                return EMPTY if fn.attr == "__contains__" else self.cs(f, fn.value, loc, refine)
            r = self.index.resolve(f.mod, fn, f)
            if r is not None and r.startswith("builtins.str."):
                m = fn.attr
                if m in STR_NOCHARS:
                    return EMPTY
                if m in STR_CASE:
                    return self._case(union(*args)) if args else EMPTY
                return union(*args) if args else EMPTY
        if isinstance(fn, ast.Call):
            callee = self.index.callee(f.mod, fn, f)
            if callee in ("operator.itemgetter", "operator.attrgetter"):
                return union(*args) if args else EMPTY
            if callee == "functools.partial" and fn.args:
                inner = fn.args[0]
                pre = [self.cs(f, a, loc, refine) for a in fn.args[1:]]
                return self.apply(f, inner, pre + list(args), loc, refine)
            if callee == "cdd.shared.pure_utils.rpartial" and fn.args:
                inner = fn.args[0]
                post = [self.cs(f, a, loc, refine) for a in fn.args[1:]]
                return self.apply(f, inner, list(args) + post, loc, refine)
        if isinstance(fn, (ast.Name, ast.Attribute)):
            r = self.index.resolve(f.mod, fn, f)
            if r in self.funcs:
                return self.call_repo(f, self.funcs[r], args, [], None)
            if r in PASS_THROUGH:
                return union(*args) if args else EMPTY
            if r in NO_CHARS:
                return EMPTY
        self.unknown_calls.append((f.qual, "apply " + short(fn, 60)))
        return TOP

    @staticmethod
    def _case(cs):
        if cs == TOP:
            return TOP
        out = set(cs)
        for c in cs:
            if c != WS:
                out.add(c.lower())
                out.add(c.upper())
        return frozenset(out)

    def call_repo(self, f, tf, argcs, kw, call):
        """bind arguments into the callee's parameter variables, return its return charset"""
        params = tf.params
        for i, c in enumerate(argcs):
            if i < len(params):
                self.add(tf, params[i], c)
        for k, c in kw:
            if k in params:
                self.add(tf, k, c)
        # by-reference back-propagation for plain Name arguments (callee mutates its parameter)
        if call is not None:
            for i, a in enumerate(call.args):
                if isinstance(a, ast.Name) and i < len(params) and (a.id in f.locals or a.id in f.params):
                    self.add(f, a.id, self.get(tf, params[i]))
            for k in call.keywords:
                if k.arg in params and isinstance(k.value, ast.Name) and (
                    k.value.id in f.locals or k.value.id in f.params
                ):
                    self.add(f, k.value.id, self.get(tf, k.arg))
        return self.rets.get(tf.qual, EMPTY)

    def call(self, f, e, loc, refine):
        """charset of a Call"""
        fn = e.func
        argcs = [self.cs(f, a, loc, refine) for a in e.args]
        kwcs = [(k.arg, self.cs(f, k.value, loc, refine)) for k in e.keywords]
        allargs = argcs + [c for _, c in kwcs]
        if isinstance(fn, ast.Lambda):
            return self.apply(f, fn, argcs, loc, refine)
        callee = self.index.callee(f.mod, e, f)
        if callee in self.funcs:
            return self.call_repo(f, self.funcs[callee], argcs, kwcs, e)
        if callee in NO_CHARS:
            return EMPTY
        if callee in (
            "functools.partial",
            "cdd.shared.pure_utils.rpartial",
            "operator.itemgetter",
            "operator.attrgetter",
        ):
            return EMPTY  # a callable object; its application is modelled by apply()
        if callee in PASS_THROUGH:
            return union(*allargs) if allargs else EMPTY
        if callee in ELEMENTWISE_FILTERS and len(e.args) >= 2:
            # the predicate sees the elements; result = the iterable
            self.apply(f, e.args[0], [argcs[1]], loc, refine) if isinstance(e.args[0], ast.Lambda) else None
            return argcs[1]
        if callee == "builtins.map" and len(e.args) >= 2:
            return self.apply(f, e.args[0], argcs[1:], loc, refine)
        if callee == "builtins.next" and e.args:
            return union(*argcs)
        if isinstance(fn, ast.Attribute):
            m = fn.attr
            recv = self.cs(f, fn.value, loc, refine)
            # mutation of a container rooted at a variable
            if m in MUTATING:
                root = fn.value
                while isinstance(root, (ast.Subscript, ast.Attribute)):
                    root = root.value
                if isinstance(root, ast.Name) and root.id not in loc:
                    self.add(f, root.id, union(*allargs) if allargs else EMPTY)
                return EMPTY
            if m in STR_NOCHARS:
                return EMPTY
            if m == "join":
                return union(recv, *argcs)
            if m in ("format", "format_map"):
                # a constant template contributes its LITERAL text only: field names / conversions / specs inside the
                # braces (`{candidate_type!r:>4}`) are not characters of the result
                if m == "format" and isinstance(fn.value, ast.Constant) and isinstance(fn.value.value, str):
                    import string as _string

                    try:
                        parts = list(_string.Formatter().parse(fn.value.value))
                        lit = "".join(p_[0] for p_ in parts) + "".join((p_[2] or "") for p_ in parts)
                        conv_r = any(p_[3] in ("r", "a") for p_ in parts)
                        r2 = frozenset(lit) | (frozenset("'\"\\") if conv_r else frozenset())
                        return union(r2, *allargs)
                    except ValueError:
                        pass
                r2 = recv if recv == TOP else frozenset(recv - BRACES)
                return union(r2, *allargs)
            if m == "replace" and len(argcs) >= 2:
                return union(recv, argcs[1])
            if m == "get":
                return union(recv, *argcs[1:])
            if m in STR_KEEP:
                return recv
            if m in STR_CASE:
                return self._case(recv)
            if m in ("encode", "decode"):
                return recv
        if isinstance(fn, ast.Name) and (fn.id in loc):
            self.unknown_calls.append((f.qual, "call of local callable " + fn.id))
            return TOP
        self.unknown_calls.append((f.qual, "call " + short(fn, 60)))
        return TOP
