"""
E3 — syntax-directed walker carrying guard facts.

A fact is (normalised expression text -> truth value known to hold at this program point).
Recognised idioms: if/elif/else, conditional expressions, and/or short circuit, `not`,
early exit (`if c: return/raise/continue/break`), `assert c`, while tests; facts about a name are
killed when the name is (re)assigned, deleted, or is a loop/with target. Loop bodies and `try`
handlers start from the entry facts minus everything the loop/try body may kill.
"""

import ast

from .core import norm, stored_names

_NEG = {ast.IsNot: ast.Is, ast.NotEq: ast.Eq, ast.NotIn: ast.In}


def cond_facts(test, truth):
    """facts implied by `test` evaluating to `truth`"""
    out = {}
    if isinstance(test, ast.UnaryOp) and isinstance(test.op, ast.Not):
        out.update(cond_facts(test.operand, not truth))
    elif isinstance(test, ast.BoolOp):
        if isinstance(test.op, ast.And) and truth:
            for v in test.values:
                out.update(cond_facts(v, True))
        elif isinstance(test.op, ast.Or) and not truth:
            for v in test.values:
                out.update(cond_facts(v, False))
    elif (
        isinstance(test, ast.Compare)
        and len(test.ops) == 1
        and type(test.ops[0]) in _NEG
    ):
        pos = ast.Compare(
            left=test.left, ops=[_NEG[type(test.ops[0])]()], comparators=test.comparators
        )
        out[norm(pos)] = not truth
    elif isinstance(test, ast.NamedExpr):
        out.update(cond_facts(test.value, truth))
    out[norm(test)] = truth
    return out


def names_in(node):
    """all Name ids occurring in node"""
    return {n.id for n in ast.walk(node) if isinstance(n, ast.Name)}


def _fact_names(text):
    try:
        return names_in(ast.parse(text, mode="eval"))
    except SyntaxError:  # pragma: no cover
        return set()


def kill(facts, names):
    """drop facts that mention any of `names`"""
    if not names or not facts:
        return facts
    return {k: v for k, v in facts.items() if not (_fact_names(k) & names)}


def assigned_names(stmts):
    """names that may be (re)bound anywhere inside stmts (not descending into nested defs)"""
    out = set()
    stack = list(stmts)
    while stack:
        n = stack.pop()
        if isinstance(n, (ast.FunctionDef, ast.AsyncFunctionDef, ast.ClassDef)):
            out.add(n.name)
            continue
        if isinstance(n, (ast.Assign, ast.AnnAssign, ast.AugAssign)):
            for t in n.targets if isinstance(n, ast.Assign) else [n.target]:
                out.update(stored_names(t))
        elif isinstance(n, (ast.For, ast.AsyncFor, ast.comprehension)):
            out.update(stored_names(n.target))
        elif isinstance(n, (ast.With, ast.AsyncWith)):
            for it in n.items:
                if it.optional_vars is not None:
                    out.update(stored_names(it.optional_vars))
        elif isinstance(n, ast.NamedExpr):
            out.update(stored_names(n.target))
        elif isinstance(n, ast.Delete):
            for t in n.targets:
                out.update(stored_names(t))
        elif isinstance(n, ast.ExceptHandler) and n.name:
            out.add(n.name)
        elif isinstance(n, (ast.Import, ast.ImportFrom)):
            for a in n.names:
                out.add(a.asname or a.name.split(".")[0])
        stack.extend(ast.iter_child_nodes(n))
    return out


def _meet(a, b):
    """facts holding on both incoming edges"""
    return {k: v for k, v in a.items() if b.get(k) is v}


class GuardWalker(object):
    """
    Walk one function; calls `on_expr(node, facts)` for every expression node, in evaluation
    context, and `on_stmt(stmt, facts)` for every statement, with the guard facts at that point.
    """

    def __init__(self, on_expr=None, on_stmt=None, descend_lambda=True):
        self.on_expr = on_expr or (lambda n, f: None)
        self.on_stmt = on_stmt or (lambda s, f: None)
        self.descend_lambda = descend_lambda
        self.mutable = set()
        self.bool_defs = {}
        self._counts = {}

    # -------------------------------------------------------------- entry
    def walk_function(self, fn_node, facts=None):
        """walk body of a FunctionDef / Lambda"""
        body = fn_node.body if isinstance(fn_node.body, list) else [ast.Expr(fn_node.body)]
        self.mutable = assigned_names(body)
        # boolean aliases: `x = a and not b` bound exactly once over names bound at most once, so
        # that a later `if x:` also establishes the facts of its definition
        counts = {}
        defs = {}
        for n in ast.walk(fn_node):
            if isinstance(n, (ast.Assign, ast.AnnAssign, ast.AugAssign)):
                for t in n.targets if isinstance(n, ast.Assign) else [n.target]:
                    for nm in stored_names(t):
                        counts[nm] = counts.get(nm, 0) + 1
                        if isinstance(t, ast.Name) and isinstance(n, (ast.Assign, ast.AnnAssign)):
                            defs[nm] = n.value
            elif isinstance(n, (ast.For, ast.comprehension, ast.NamedExpr)):
                for nm in stored_names(n.target):
                    counts[nm] = counts.get(nm, 0) + 2
        params = set()
        if hasattr(fn_node, "args"):
            a = fn_node.args
            params = {x.arg for x in a.posonlyargs + a.args + a.kwonlyargs}
        self.bool_defs = {}
        for nm, v in defs.items():
            if counts.get(nm) != 1 or nm in params or v is None:
                continue
            if not isinstance(v, (ast.BoolOp, ast.UnaryOp, ast.Compare, ast.Name)):
                continue
            self.bool_defs[nm] = v
        self._counts = counts
        return self.block(body, dict(facts or {}))

    def cf(self, test, truth):
        """cond_facts + expansion through single-assignment boolean aliases"""
        out = cond_facts(test, truth)
        for _ in range(3):
            extra = {}
            for k, v in out.items():
                d = self.bool_defs.get(k)
                if d is not None:
                    for k2, v2 in cond_facts(d, v).items():
                        # only facts over names never rebound in the function carry over
                        if all(self._counts.get(x, 0) == 0 for x in _fact_names(k2)):
                            extra[k2] = v2
            if all(k in out for k in extra):
                break
            for k, v in extra.items():
                out.setdefault(k, v)
        return out

    # ---------------------------------------------------------- statements
    def block(self, stmts, facts):
        """returns (facts_after, terminated)"""
        for s in stmts:
            facts, term = self.stmt(s, facts)
            if term:
                return facts, True
        return facts, False

    def stmt(self, s, facts):
        """one statement"""
        self.on_stmt(s, facts)
        if isinstance(s, ast.If):
            self.expr(s.test, facts)
            ft = dict(facts)
            ft.update(self.cf(s.test, True))
            ff = dict(facts)
            ff.update(self.cf(s.test, False))
            fa, ta = self.block(s.body, ft)
            fb, tb = self.block(s.orelse, ff)
            if ta and tb:
                return facts, True
            if ta:
                return fb, False
            if tb:
                return fa, False
            return _meet(fa, fb), False
        if isinstance(s, (ast.For, ast.AsyncFor)):
            self.expr(s.iter, facts)
            killed = assigned_names(s.body) | set(stored_names(s.target))
            fl = kill(facts, killed)
            self.block(s.body, dict(fl))
            fo, _ = self.block(s.orelse, dict(fl))
            out = fl if not s.orelse else _meet(fl, fo)
            # the search-loop idiom: `for T in IT: if C: return / raise` and nothing else — past the loop no element
            # satisfied C, which is the fact `any(C for T in IT)` being false (the loop spelling of `if not any(...)`)
            if (
                not s.orelse
                and len(s.body) == 1
                and isinstance(s.body[0], ast.If)
                and not s.body[0].orelse
                and s.body[0].body
                and isinstance(s.body[0].body[-1], (ast.Return, ast.Raise))
                and not any(isinstance(x, (ast.Break, ast.Continue)) for x in ast.walk(s.body[0]))
            ):
                try:
                    key = "any({} for {} in {})".format(ast.unparse(s.body[0].test), ast.unparse(s.target), ast.unparse(s.iter))
                    out = dict(out)
                    out[key] = False
                except Exception:  # pragma: no cover
                    pass
            return out, False
        if isinstance(s, ast.While):
            killed = assigned_names(s.body)
            fl = kill(facts, killed)
            self.expr(s.test, fl)
            fb = dict(fl)
            fb.update(self.cf(s.test, True))
            self.block(s.body, fb)
            fe = dict(fl)
            has_break = any(isinstance(n, ast.Break) for n in ast.walk(s))
            if not has_break:
                fe.update(self.cf(s.test, False))
            fo, _ = self.block(s.orelse, dict(fe))
            return fe if not s.orelse else _meet(fe, fo), False
        if isinstance(s, (ast.With, ast.AsyncWith)):
            for it in s.items:
                self.expr(it.context_expr, facts)
                if it.optional_vars is not None:
                    facts = kill(facts, set(stored_names(it.optional_vars)))
            return self.block(s.body, facts)
        if isinstance(s, ast.Try):
            killed = assigned_names(s.body)
            fentry = kill(facts, killed)
            fb, tb = self.block(s.body, dict(facts))
            outs = []
            if not tb:
                fo, to = self.block(s.orelse, fb)
                if not to:
                    outs.append(fo)
            for h in s.handlers:
                if h.type is not None:
                    self.expr(h.type, fentry)
                fh, th = self.block(h.body, dict(fentry))
                if not th:
                    outs.append(fh)
            if not outs:
                ff, tf = self.block(s.finalbody, dict(fentry))
                return ff, True
            res = outs[0]
            for o in outs[1:]:
                res = _meet(res, o)
            ff, tf = self.block(s.finalbody, res)
            return ff, tf
        if isinstance(s, (ast.Return, ast.Raise)):
            for c in ast.iter_child_nodes(s):
                self.expr(c, facts)
            return facts, True
        if isinstance(s, (ast.Break, ast.Continue)):
            return facts, True
        if isinstance(s, ast.Assert):
            self.expr(s.test, facts)
            if s.msg is not None:
                self.expr(s.msg, facts)
            f2 = dict(facts)
            f2.update(self.cf(s.test, True))
            return f2, False
        if isinstance(s, (ast.FunctionDef, ast.AsyncFunctionDef)):
            for d in s.decorator_list:
                self.expr(d, facts)
            for d in s.args.defaults + [x for x in s.args.kw_defaults if x is not None]:
                self.expr(d, facts)
            return kill(facts, {s.name}), False
        if isinstance(s, ast.ClassDef):
            return kill(facts, {s.name}), False
        if isinstance(s, (ast.Assign, ast.AnnAssign, ast.AugAssign)):
            if s.value is not None:
                self.expr(s.value, facts)
            tg = s.targets if isinstance(s, ast.Assign) else [s.target]
            killed = set()
            for t in tg:
                killed.update(stored_names(t))
                if not isinstance(t, ast.Name):
                    self.expr(t, facts)
            return kill(facts, killed), False
        if isinstance(s, ast.Delete):
            killed = set()
            for t in s.targets:
                killed.update(stored_names(t))
                self.expr(t, facts)
            return kill(facts, killed), False
        if isinstance(s, ast.Match):
            self.expr(s.subject, facts)
            outs = []
            for c in s.cases:
                fc, tc = self.block(c.body, dict(facts))
                if not tc:
                    outs.append(fc)
            res = facts
            for o in outs:
                res = _meet(res, o)
            return res, False
        for c in ast.iter_child_nodes(s):
            if isinstance(c, ast.expr):
                self.expr(c, facts)
        return facts, False

    # --------------------------------------------------------- expressions
    def expr(self, e, facts):
        """visit expression e under facts"""
        if e is None:
            return
        self.on_expr(e, facts)
        if isinstance(e, ast.IfExp):
            self.expr(e.test, facts)
            ft = dict(facts)
            ft.update(self.cf(e.test, True))
            ff = dict(facts)
            ff.update(self.cf(e.test, False))
            self.expr(e.body, ft)
            self.expr(e.orelse, ff)
            return
        if isinstance(e, ast.BoolOp):
            cur = dict(facts)
            for v in e.values:
                self.expr(v, cur)
                cur = dict(cur)
                cur.update(self.cf(v, isinstance(e.op, ast.And)))
            return
        if isinstance(e, ast.Lambda):
            if not self.descend_lambda:
                return
            a = e.args
            for d in a.defaults + [x for x in a.kw_defaults if x is not None]:
                self.expr(d, facts)
            shadow = {x.arg for x in a.posonlyargs + a.args + a.kwonlyargs}
            for x in (a.vararg, a.kwarg):
                if x is not None:
                    shadow.add(x.arg)
            # the body runs later: only facts about names never rebound in the function survive
            self.expr(e.body, kill(facts, self.mutable | shadow))
            return
        if isinstance(e, (ast.ListComp, ast.SetComp, ast.GeneratorExp, ast.DictComp)):
            cur = dict(facts)
            for g in e.generators:
                self.expr(g.iter, cur)
                cur = kill(cur, set(stored_names(g.target)))
                for c in g.ifs:
                    self.expr(c, cur)
                    cur = dict(cur)
                    cur.update(self.cf(c, True))
            if isinstance(e, ast.DictComp):
                self.expr(e.key, cur)
                self.expr(e.value, cur)
            else:
                self.expr(e.elt, cur)
            return
        for c in ast.iter_child_nodes(e):
            if isinstance(c, ast.expr):
                self.expr(c, facts)
            elif isinstance(c, ast.keyword):
                self.expr(c.value, facts)
            elif isinstance(c, ast.comprehension):  # pragma: no cover
                self.expr(c.iter, facts)
