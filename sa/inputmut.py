"""
Input-mutation analysis: which functions mutate (part of) the object graph they are handed in a parameter?

A *view* is a triple (p, L, k) attached to a value v inside function f: the objects at nesting level j >= k below v
are the objects at nesting level L + j below f's parameter p (shared with the caller); levels j < k are fresh
containers created inside f.  Operations on views:

    elem(v)    = (p, L + 1, max(k - 1, 0))      v[a], v.attr, v.get(a), iteration element, next(v)
    box(v)     = (p, L - 1, k + 1)              [v], (n, v), {a: v}, ast.X(field=v)
    shallow(v) = (p, L, max(k, 1))              dict(v), v.copy(), list(v), sorted(v), v[a:b], {**v}, filter(f, v)
    deepcopy   = no view

A mutation (`v[a] = x`, `del v[a]`, `v.update(...)`, `v.attr = x`, `v += ...`) of a value with a view whose k == 0
mutates the caller's object at level L of p.  Summaries (least fixpoint over the whole package):

    muts[(f, p)] = {L: witness}                 f mutates p's graph at level L (directly or through a callee)
    rets[f]      = {(p, L, k)}                  views of f's return value

Composition at a call g(q=a) where a has view (p, La, ka): a mutation of q at level j is shared iff j >= ka and then
hits p at level La + j; a returned view (q, Lr, kr) becomes (p, La + Lr, max(kr, ka - Lr)).

Lambdas and nested functions handed to map / filter / sorted(key=) / reduce are applied to the element views of the
iterable; local `partial(g, kw=...)` aliases are followed; comprehensions bind their targets to element views.
The walk is flow-sensitive for straight-line code (a rebinding `ir = deepcopy(ir)` kills the view), joins at
branches, and runs loop bodies twice.
"""

import ast

from .core import iter_own, short

CAP = 5
MUTATORS = frozenset(
    "append extend insert pop remove clear update add discard setdefault popitem sort reverse "
    "appendleft popleft move_to_end".split()
)
DEEP_COPIERS = frozenset(("copy.deepcopy",))
SHALLOW = frozenset(
    "builtins.dict builtins.list builtins.tuple builtins.set builtins.frozenset collections.OrderedDict "
    "copy.copy builtins.sorted builtins.reversed builtins.iter itertools.chain itertools.chain.from_iterable "
    "itertools.islice itertools.takewhile itertools.dropwhile itertools.filterfalse builtins.filter "
    "collections.deque itertools.tee".split()
)
PAIRERS = frozenset("builtins.enumerate builtins.zip itertools.zip_longest".split())
ELEM_FUNCS = frozenset("builtins.next builtins.min builtins.max".split())
APPLY = frozenset("builtins.map builtins.filter builtins.sorted functools.reduce builtins.min builtins.max itertools.starmap itertools.takewhile itertools.dropwhile itertools.filterfalse itertools.groupby builtins.any builtins.all".split())


def _cap(x):
    return max(-CAP, min(CAP, x))


def elem(vs, attr=0):
    # a module-level table whose elements are all constants (`<globalflat>`) has nothing mutable below it
    return frozenset((p, _cap(L + 1), max(k - 1, 0), a | attr) for p, L, k, a in vs if not p.startswith("<globalflat>"))


def box(vs):
    return frozenset((p, _cap(L - 1), min(k + 1, CAP), a) for p, L, k, a in vs)


def shallow(vs):
    return frozenset((p, L, max(k, 1), a) for p, L, k, a in vs)


EMPTY = frozenset()


def _has_attr(e):
    """the mutated place is reached through an attribute (`node.body.insert`, `node.name = ...`): an object, not a dict"""
    return int(any(isinstance(x, ast.Attribute) for x in ast.walk(e)))

_IMMUTABLE_TYPES = frozenset(
    "str int float bool bytes complex None NoneType Optional[str] Optional[int] Optional[float] Optional[bool] "
    "Literal tuple[str] Tuple[str] FrozenSet[str] frozenset[str] Optional[FrozenSet[str]] Callable".split()
)


def immutable_params(fn_node):
    """parameters the function's own docstring types as an immutable scalar (`:type name: ```str````)"""
    import re

    doc = ast.get_docstring(fn_node, clean=False) or ""
    out = set()
    for m in re.finditer(r":type\s+(\w+):\s*```(.*?)```", doc, re.S):
        t = " ".join(m.group(2).split())
        if t in _IMMUTABLE_TYPES or t.startswith(("Literal[", "Callable[")) or (t.startswith("Union[") and all(x.strip() in _IMMUTABLE_TYPES for x in t[6:-1].split(","))):
            out.add(m.group(1))
    return out


class FuncVal(object):
    """a callable value known to the walker: a package function, a nested def, a lambda, possibly partially applied"""

    __slots__ = ("kind", "target", "pos", "kw", "env")

    def __init__(self, kind, target, pos=(), kw=None, env=None):
        self.kind = kind  # 'qual' | 'node'
        self.target = target
        self.pos = tuple(pos)  # view sets of bound positionals
        self.kw = dict(kw or {})
        self.env = env


class InputMut(object):
    """whole-package summaries"""

    def __init__(self, index):
        self.index = index
        self.muts = {}  # (qual, param) -> {level: (node, via)}
        self.rets = {}  # qual -> frozenset of views
        self.funcs = [f for f in index.nontest_funcs()]
        self.byqual = {f.qual: f for f in self.funcs}
        self.rounds = 0
        self._modc = {}
        self.immutable = {f.qual: immutable_params(f.node) for f in self.funcs}
        self._solve()

    # ------------------------------------------------------------------ fixpoint
    def _solve(self):
        changed = True
        while changed and self.rounds < 12:
            changed = False
            self.rounds += 1
            for f in self.funcs:
                if f.outer is not None:
                    continue  # nested functions are analysed inline by their owner
                w = _Walker(self, f)
                w.run()
                for (p, L), wit in w.found.items():
                    d = self.muts.setdefault((f.qual, p), {})
                    if L not in d or (wit[2] and not d[L][2]):
                        d[L] = wit
                        changed = True
                r = frozenset(w.returned)
                if not r <= self.rets.get(f.qual, EMPTY):
                    self.rets[f.qual] = self.rets.get(f.qual, EMPTY) | r
                    changed = True

    def is_module_container(self, dotted):
        """`cdd.x.NAME` is a module-level variable bound (once) to a dict / list / set display or constructor call"""
        if dotted in self._modc:
            return self._modc[dotted]
        ok = False
        mv = self.index.module_var(dotted)
        if mv is not None and not mv[0].is_test and len(mv[1]) == 1:
            v = getattr(mv[1][0], "value", None)
            ok = isinstance(v, (ast.Dict, ast.List, ast.Set, ast.DictComp, ast.ListComp, ast.SetComp)) or (
                isinstance(v, ast.Call) and isinstance(v.func, ast.Name) and v.func.id in ("dict", "list", "set", "OrderedDict", "defaultdict", "deque")
            )
        if ok and isinstance(v, (ast.Dict, ast.List, ast.Set)):
            vals = v.values if isinstance(v, ast.Dict) else v.elts
            if all(isinstance(x, ast.Constant) or (isinstance(x, ast.Tuple) and all(isinstance(y, ast.Constant) for y in x.elts)) for x in vals):
                ok = "flat"
        if ok and isinstance(v, ast.DictComp) and isinstance(v.key, (ast.Name, ast.Constant)) and isinstance(v.value, (ast.Name, ast.Constant)):
            ok = "flat"  # {v: k for k, v in <table>.items()}: an inverse table of scalars
        self._modc[dotted] = ok
        return ok

    def global_mutations(self):
        """[(function qual, module variable, level, witness)] — a function mutating (part of) a module-level container"""
        out = []
        for (qual, p), d in self.muts.items():
            if p.startswith("<global"):
                for L, w in d.items():
                    out.append((qual, p.partition(">")[2], L, w))
        return out

    def mutates(self, qual, param):
        """{level: (node, via-or-None, through-an-attribute)} — empty when the parameter's object graph is left alone"""
        return self.muts.get((qual, param), {})

    def chain(self, qual, param, level, limit=6):
        """human-readable witness path: f: `stmt` -> g: `stmt` ..."""
        out = []
        seen = set()
        while limit and (qual, param, level) not in seen:
            seen.add((qual, param, level))
            limit -= 1
            ent = self.muts.get((qual, param), {}).get(level)
            if ent is None:
                break
            node, via, _a = ent
            f = self.byqual.get(qual)
            out.append("{}:{} `{}`".format(qual.rpartition(".")[2] if f is None else f.short, getattr(node, "lineno", "?"), short(node, 70)))
            if via is None:
                break
            qual, param, level = via
        return " -> ".join(out)


class _Walker(object):
    """one pass over one top-level function (nested defs and lambdas inline)"""

    def __init__(self, owner, f):
        self.o = owner
        self.f = f
        self.index = owner.index
        self.found = {}  # (param, level) -> (node, via)
        self.returned = set()
        self.depth = 0

    # -- environment helpers
    def run(self):
        imm = self.o.immutable.get(self.f.qual, ())
        env = {p: (EMPTY if p in imm else frozenset([(p, 0, 0, 0)])) for p in self.f.params}
        self._body(self.f.node.body, env, self.f)
        # `@deco def f(a, b)` where deco is a package function returning a nested `wrapper(a, b)`: a call of f runs the
        # wrapper, which works on f's arguments too (`state["parsed"].append(...)` around the wrapped call)
        for d in self.f.node.decorator_list:
            dq = self.index.resolve(self.f.mod, d.func if isinstance(d, ast.Call) else d, self.f.outer)
            tf = self.index.funcs.get(dq or "")
            if tf is None or tf.mod.is_test:
                continue
            returned = {r.value.id for r in iter_own(tf.node) if isinstance(r, ast.Return) and isinstance(r.value, ast.Name)}
            for w in tf.node.body:
                if isinstance(w, ast.FunctionDef) and w.name in returned:
                    wnames = [x.arg for x in w.args.posonlyargs + w.args.args]
                    fnames = [x.arg for x in self.f.node.args.posonlyargs + self.f.node.args.args]
                    env2 = {}
                    for wn, fn_ in zip(wnames, fnames):
                        env2[wn] = env.get(fn_, EMPTY)
                    for pn in tf.params[:1]:
                        env2[pn] = FuncVal("qual", self.f.qual)
                    self.depth += 1
                    if not hasattr(self, "_ret_stack"):
                        self._ret_stack = []
                    self._ret_stack.append(set())
                    try:
                        self._body(w.body, env2, tf.nested.get(w.name) or tf)
                    finally:
                        self.depth -= 1
                        self._ret_stack.pop()

    def _join(self, a, b):
        out = dict(a)
        for k, v in b.items():
            if k in out and isinstance(out[k], frozenset) and isinstance(v, frozenset):
                out[k] = out[k] | v
            elif k not in out:
                out[k] = v
            elif isinstance(v, frozenset):
                out[k] = v  # function value vs views: keep views
        return out

    def _mut(self, vs, node, via=None, levels=(0,), via_attr=0):
        for p, L, k, a in vs:
            for j in levels:
                if j >= k:
                    key = (p, _cap(L + j))
                    if key[1] < 0:
                        continue
                    a2 = via_attr
                    if key not in self.found or (a2 and not self.found[key][2]):
                        self.found[key] = (node, via, a2)

    # -- statements
    def _body(self, stmts, env, scope):
        for s in stmts:
            env = self._stmt(s, env, scope)
        return env

    def _stmt(self, s, env, scope):
        if isinstance(s, (ast.FunctionDef, ast.AsyncFunctionDef)):
            fv = FuncVal("node", s, env=env)
            env = dict(env)
            env[s.name] = fv
            # closure effects with unbound parameters
            self._apply(fv, [], {}, s, env, scope)
            return env
        if isinstance(s, ast.ClassDef):
            return env
        if isinstance(s, ast.Return):
            if s.value is not None:
                vs = self._views(s.value, env, scope)
                if self.depth == 0:
                    self.returned |= vs
                elif getattr(self, "_ret_stack", None):
                    self._ret_stack[-1] |= vs
            return env
        if isinstance(s, (ast.Assign, ast.AnnAssign)):
            if s.value is None:
                return env
            val = self._eval(s.value, env, scope)
            env = dict(env)
            for t in s.targets if isinstance(s, ast.Assign) else [s.target]:
                self._assign(t, val, s.value, env, scope, s)
            return env
        if isinstance(s, ast.AugAssign):
            val = self._views(s.value, env, scope)
            if isinstance(s.target, ast.Name):
                cur = env.get(s.target.id, EMPTY)
                cur = cur if isinstance(cur, frozenset) else EMPTY
                if isinstance(s.op, ast.Add):
                    # list += ... mutates in place; str/int rebinding is harmless because immutable values have no views
                    self._mut(cur, s)
                env = dict(env)
                env[s.target.id] = cur | shallow(val)
            else:
                base = self._views(s.target.value, env, scope)
                self._mut(base, s, via_attr=_has_attr(s.target))
                self._store_into(s.target, shallow(val), env)
            return env
        if isinstance(s, ast.Delete):
            for t in s.targets:
                if isinstance(t, (ast.Subscript, ast.Attribute)):
                    self._mut(self._views(t.value, env, scope), s, via_attr=_has_attr(t))
                elif isinstance(t, ast.Name):
                    env = dict(env)
                    env.pop(t.id, None)
            return env
        if isinstance(s, ast.Expr):
            self._eval(s.value, env, scope)
            return env
        if isinstance(s, ast.If):
            self._eval(s.test, env, scope)
            a = self._body(s.body, dict(env), scope)
            b = self._body(s.orelse, dict(env), scope)
            return self._join(a, b)
        if isinstance(s, (ast.For, ast.AsyncFor)):
            it = self._views(s.iter, env, scope)
            env = dict(env)
            for _ in range(2):
                e2 = dict(env)
                self._bind_target(s.target, elem(it), e2, s.iter)
                e2 = self._body(s.body, e2, scope)
                env = self._join(env, e2)
            env = self._body(s.orelse, env, scope)
            return env
        if isinstance(s, ast.While):
            for _ in range(2):
                self._eval(s.test, env, scope)
                env = self._join(env, self._body(s.body, dict(env), scope))
            return self._body(s.orelse, env, scope)
        if isinstance(s, (ast.With, ast.AsyncWith)):
            env = dict(env)
            for it in s.items:
                v = self._views(it.context_expr, env, scope)
                if it.optional_vars is not None:
                    self._bind_target(it.optional_vars, v, env)
            return self._body(s.body, env, scope)
        if isinstance(s, ast.Try):
            e1 = self._body(s.body, dict(env), scope)
            out = self._join(env, e1)
            for h in s.handlers:
                out = self._join(out, self._body(h.body, dict(out), scope))
            out = self._body(s.orelse, out, scope)
            return self._body(s.finalbody, out, scope)
        if isinstance(s, ast.Assert):
            self._eval(s.test, env, scope)
            return env
        if isinstance(s, ast.Raise):
            if s.exc is not None:
                self._eval(s.exc, env, scope)
            return env
        return env

    def _bind_target(self, t, vs, env, iter_node=None):
        if isinstance(t, ast.Name):
            env[t.id] = vs
        elif isinstance(t, (ast.Tuple, ast.List)):
            keyed = (
                len(t.elts) == 2
                and isinstance(iter_node, ast.Call)
                and (
                    (isinstance(iter_node.func, ast.Attribute) and iter_node.func.attr == "items")
                    or (isinstance(iter_node.func, ast.Name) and iter_node.func.id == "enumerate")
                )
            )
            for i, x in enumerate(t.elts):
                # `for name, param in d.items()` / `for i, x in enumerate(xs)`: the first of the pair is a key / an index
                self._bind_target(x.value if isinstance(x, ast.Starred) else x, EMPTY if keyed and i == 0 else elem(vs), env)

    def _assign(self, t, val, value_node, env, scope, stmt):
        if isinstance(t, ast.Name):
            env[t.id] = val
        elif isinstance(t, (ast.Tuple, ast.List)):
            if isinstance(value_node, (ast.Tuple, ast.List)) and len(value_node.elts) == len(t.elts):
                for x, v in zip(t.elts, value_node.elts):
                    self._assign(x, self._eval(v, env, scope), v, env, scope, stmt)
            else:
                vs = val if isinstance(val, frozenset) else EMPTY
                for x in t.elts:
                    self._bind_target(x.value if isinstance(x, ast.Starred) else x, elem(vs), env)
        elif isinstance(t, (ast.Subscript, ast.Attribute)):
            self._mut(self._views(t.value, env, scope), stmt, via_attr=_has_attr(t))
            self._store_into(t, val if isinstance(val, frozenset) else EMPTY, env)

    def _store_into(self, t, vs, env):
        """`root[a][b] = v`: root now (also) holds v's objects, two container levels down"""
        d = 0
        while isinstance(t, (ast.Subscript, ast.Attribute)):
            d += 1
            t = t.value
        if isinstance(t, ast.Name) and vs:
            for _ in range(d):
                vs = box(vs)
            cur = env.get(t.id, EMPTY)
            env[t.id] = (cur if isinstance(cur, frozenset) else EMPTY) | vs

    # -- expressions
    def _views(self, e, env, scope):
        v = self._eval(e, env, scope)
        return v if isinstance(v, frozenset) else EMPTY

    def _eval(self, e, env, scope):
        """frozenset of views, or a FuncVal"""
        if e is None:
            return EMPTY
        if isinstance(e, ast.Name):
            v = env.get(e.id)
            if v is not None:
                return v
            q = self.index.resolve(self.f.mod, e, scope)
            if q in self.o.byqual or q in self.index.funcs:
                return FuncVal("qual", q)
            if q is not None and self.o.is_module_container(q):
                # a module-level mutable container read inside a function: a view on an object every call shares
                return frozenset([(("<globalflat>" if self.o._modc.get(q) == "flat" else "<global>") + q, 0, 0, 0)])
            return EMPTY
        if isinstance(e, ast.Attribute):
            base = self._eval(e.value, env, scope)
            if isinstance(base, frozenset) and base:
                return elem(base, 1)
            q = self.index.resolve(self.f.mod, e, scope)
            if q in self.index.funcs:
                return FuncVal("qual", q)
            return EMPTY
        if isinstance(e, ast.Subscript):
            base = self._views(e.value, env, scope)
            self._eval(e.slice, env, scope)
            if isinstance(e.slice, ast.Slice):
                return shallow(base)
            return elem(base)
        if isinstance(e, ast.Starred):
            return self._views(e.value, env, scope)
        if isinstance(e, (ast.Tuple, ast.List, ast.Set)):
            out = EMPTY
            for x in e.elts:
                vs = self._views(x, env, scope)
                out |= shallow(vs) if isinstance(x, ast.Starred) else box(vs)
            return out
        if isinstance(e, ast.Dict):
            out = EMPTY
            for k, v in zip(e.keys, e.values):
                vs = self._views(v, env, scope)
                out |= shallow(vs) if k is None else box(vs)
                if k is not None:
                    self._eval(k, env, scope)
            return out
        if isinstance(e, ast.BoolOp):
            out = EMPTY
            for x in e.values:
                out |= self._views(x, env, scope)
            return out
        if isinstance(e, ast.IfExp):
            self._eval(e.test, env, scope)
            a, b = self._eval(e.body, env, scope), self._eval(e.orelse, env, scope)
            if isinstance(a, FuncVal):
                return a
            if isinstance(b, FuncVal):
                return b
            return a | b
        if isinstance(e, ast.NamedExpr):
            v = self._eval(e.value, env, scope)
            if isinstance(e.target, ast.Name):
                env[e.target.id] = v
            return v
        if isinstance(e, ast.Lambda):
            return FuncVal("node", e, env=env)
        if isinstance(e, (ast.ListComp, ast.SetComp, ast.GeneratorExp, ast.DictComp)):
            env2 = dict(env)
            for g in e.generators:
                self._bind_target(g.target, elem(self._views(g.iter, env2, scope)), env2, g.iter)
                for c in g.ifs:
                    self._eval(c, env2, scope)
            if isinstance(e, ast.DictComp):
                self._eval(e.key, env2, scope)
                return box(self._views(e.value, env2, scope))
            return box(self._views(e.elt, env2, scope))
        if isinstance(e, ast.Call):
            return self._call(e, env, scope)
        if isinstance(e, (ast.BinOp,)):
            a, b = self._views(e.left, env, scope), self._views(e.right, env, scope)
            return shallow(a | b) if isinstance(e.op, (ast.Add, ast.BitOr)) else EMPTY
        if isinstance(e, (ast.UnaryOp,)):
            self._eval(e.operand, env, scope)
            return EMPTY
        if isinstance(e, ast.Compare):
            self._eval(e.left, env, scope)
            for c in e.comparators:
                self._eval(c, env, scope)
            return EMPTY
        if isinstance(e, (ast.JoinedStr, ast.FormattedValue, ast.Constant)):
            return EMPTY
        if isinstance(e, (ast.Await, ast.Yield, ast.YieldFrom)):
            return self._views(e.value, env, scope) if e.value is not None else EMPTY
        return EMPTY

    def _call(self, c, env, scope):
        fn = c.func
        # method calls on a value with views
        if isinstance(fn, ast.Attribute):
            basev = self._eval(fn.value, env, scope)
            if isinstance(basev, frozenset) and (basev or not self._resolvable(fn, scope)):
                return self._method(c, fn, basev, env, scope)
        callee = self.index.resolve(self.f.mod, fn, scope) if isinstance(fn, (ast.Name, ast.Attribute)) else None
        if isinstance(fn, ast.Name) and fn.id in env:
            callee = None
        args = [self._eval(a, env, scope) for a in c.args]
        kws = {k.arg: self._eval(k.value, env, scope) for k in c.keywords if k.arg}
        star_kw = [self._views(k.value, env, scope) for k in c.keywords if k.arg is None]
        argv = [a if isinstance(a, frozenset) else EMPTY for a in args]
        starred = [isinstance(a, ast.Starred) for a in c.args]
        if callee in DEEP_COPIERS:
            return EMPTY
        if callee in ("functools.partial", "cdd.shared.pure_utils.rpartial") and args:
            base = args[0]
            if isinstance(base, FuncVal):
                if callee.endswith("rpartial"):
                    return FuncVal(base.kind, base.target, base.pos, base.kw, base.env)  # trailing positionals: not tracked
                return FuncVal(base.kind, base.target, base.pos + tuple(argv[1:]), dict(base.kw, **{k: v for k, v in kws.items() if isinstance(v, frozenset)}), base.env)
            return EMPTY
        if callee in APPLY and args:
            return self._apply_hof(callee, c, args, argv, kws, env, scope)
        if callee in PAIRERS:
            out = EMPTY
            for a in argv:
                out |= box(box(elem(a)))
            return out
        if callee in ELEM_FUNCS and argv:
            out = elem(argv[0])
            for a in argv[1:]:
                out |= a
            return out
        if callee in ("builtins.dict", "collections.OrderedDict") and c.args:
            a0 = c.args[0]
            pairs = isinstance(a0, (ast.GeneratorExp, ast.ListComp, ast.Tuple, ast.List)) or (
                isinstance(a0, ast.Call)
                and (
                    (isinstance(a0.func, ast.Attribute) and a0.func.attr == "items")
                    or self.index.resolve(self.f.mod, a0.func, scope) in APPLY | PAIRERS | SHALLOW
                )
            )
            out = box(elem(elem(argv[0]))) if pairs else shallow(argv[0])
            for v in kws.values():
                if isinstance(v, frozenset):
                    out |= box(v)
            for v in star_kw:
                out |= shallow(v)
            return out
        if callee in SHALLOW:
            out = EMPTY
            for a, st in zip(argv, starred):
                out |= shallow(a)
            if callee == "itertools.chain":
                out = EMPTY
                for a in argv:
                    out |= box(elem(elem(a))) if True else EMPTY
                # chain(a, b): elements of the arguments; chain(*its): elements of elements
                out = EMPTY
                for a, st in zip(argv, starred):
                    out |= shallow(elem(a)) if st else shallow(a)
            if callee == "itertools.chain.from_iterable" and argv:
                out = shallow(elem(argv[0]))
            return out
        if callee in ("builtins.setattr",) and len(argv) >= 1:
            self._mut(argv[0], c, via_attr=1)
            return EMPTY
        if callee in ("builtins.getattr",) and argv:
            out = elem(argv[0], 1)
            for a in argv[2:]:
                out |= a
            return out
        if callee in ("builtins.vars",) and argv:
            return argv[0]
        # known callables
        fv = None
        if isinstance(fn, ast.Name) and isinstance(env.get(fn.id), FuncVal):
            fv = env[fn.id]
        elif callee in self.index.funcs:
            fv = FuncVal("qual", callee)
        elif isinstance(fn, ast.Lambda):
            fv = FuncVal("node", fn, env=env)
        elif isinstance(fn, ast.Call):
            r = self._eval(fn, env, scope)
            if isinstance(r, FuncVal):
                fv = r
        if fv is not None:
            pos = []
            for a, st in zip(argv, starred):
                pos.append(elem(a) if st else a)
            kw = {k: v for k, v in kws.items() if isinstance(v, frozenset)}
            return self._apply(fv, pos, kw, c, env, scope, star_kw=star_kw, any_star=any(starred))
        # unknown / external callable: constructors box their arguments, nothing is mutated
        out = EMPTY
        if callee is None or callee.startswith(("ast.", "cdd.")) or callee.rpartition(".")[2][:1].isupper():
            for a in argv:
                out |= box(a)
            for v in kws.values():
                if isinstance(v, frozenset):
                    out |= box(v)
        return out

    def _resolvable(self, fn, scope):
        q = self.index.resolve(self.f.mod, fn, scope)
        return q is not None

    def _method(self, c, fn, basev, env, scope):
        name = fn.attr
        argv = [self._views(a, env, scope) for a in c.args]
        for k in c.keywords:
            self._eval(k.value, env, scope)
        if name in ("items",):
            return box(box(elem(basev)))
        if name in ("values",):
            return box(elem(basev))
        if name in ("keys",):
            return EMPTY
        if name == "copy":
            return shallow(basev)
        if name == "get":
            out = elem(basev)
            for a in argv[1:]:
                out |= a
            return out
        if name in MUTATORS:
            self._mut(basev, c, via_attr=_has_attr(fn.value))
            root = fn.value
            if name in ("update", "extend"):
                add = EMPTY
                for a in argv:
                    add |= shallow(a)
                for k in c.keywords:
                    if k.arg:
                        add |= box(self._views(k.value, env, scope))
                self._store_root(root, add, env, 0)
                return EMPTY
            if name in ("append", "add", "appendleft"):
                self._store_root(root, box(argv[0]) if argv else EMPTY, env, 0)
                return EMPTY
            if name == "insert":
                self._store_root(root, box(argv[1]) if len(argv) > 1 else EMPTY, env, 0)
                return EMPTY
            if name == "setdefault":
                if len(argv) > 1:
                    self._store_root(root, box(argv[1]), env, 0)
                return elem(basev) | (argv[1] if len(argv) > 1 else EMPTY)
            if name in ("pop", "popitem", "popleft"):
                out = elem(basev)
                for a in argv[1:]:
                    out |= a
                return out
            return EMPTY
        if name in ("__getitem__",):
            return elem(basev)
        return EMPTY

    def _store_root(self, t, vs, env, d):
        while isinstance(t, (ast.Subscript, ast.Attribute)):
            d += 1
            t = t.value
        if isinstance(t, ast.Name) and vs:
            for _ in range(d):
                vs = box(vs)
            cur = env.get(t.id, EMPTY)
            env[t.id] = (cur if isinstance(cur, frozenset) else EMPTY) | vs

    def _apply_hof(self, callee, c, args, argv, kws, env, scope):
        """map(F, it, ...), filter(F, it), sorted(it, key=F), reduce(F, it, init), min/max(it, key=F), any/all(it)"""
        short_name = callee.rpartition(".")[2]
        if short_name in ("map", "starmap"):
            fv = args[0]
            its = argv[1:]
            el = [elem(v) for v in its]
            if short_name == "starmap":
                el = [elem(el[0])] if el else []
            res = self._apply(fv, el, {}, c, env, scope) if isinstance(fv, FuncVal) else EMPTY
            if not isinstance(fv, FuncVal):
                # map(itemgetter(1), x) / map(str.strip, x) / map(None...) : conservatively the elements and their elements
                res = EMPTY
                for v in el:
                    res |= v | elem(v)
            return box(res if isinstance(res, frozenset) else EMPTY)
        if short_name in ("filter", "takewhile", "dropwhile", "filterfalse"):
            fv = args[0]
            it = argv[1] if len(argv) > 1 else EMPTY
            if isinstance(fv, FuncVal):
                self._apply(fv, [elem(it)], {}, c, env, scope)
            return shallow(it)
        if short_name in ("sorted", "min", "max", "groupby"):
            it = argv[0]
            key = kws.get("key")
            if key is None and short_name == "groupby" and len(args) > 1:
                key = args[1]
            if isinstance(key, FuncVal):
                self._apply(key, [elem(it)], {}, c, env, scope)
            if short_name in ("min", "max"):
                out = elem(it)
                for a in argv[1:]:
                    out |= a
                return out
            if short_name == "groupby":
                return box(box(box(elem(it))))
            return shallow(it)
        if short_name in ("any", "all"):
            return EMPTY
        if short_name == "reduce":
            fv = args[0]
            it = argv[1] if len(argv) > 1 else EMPTY
            init = argv[2] if len(argv) > 2 else EMPTY
            if isinstance(fv, FuncVal):
                acc = init | elem(it)
                for _ in range(2):
                    r = self._apply(fv, [acc, elem(it)], {}, c, env, scope)
                    acc = acc | (r if isinstance(r, frozenset) else EMPTY)
                return acc
            return init | elem(it)
        return EMPTY

    def _apply(self, fv, pos, kw, site, env, scope, star_kw=(), any_star=False):
        """effects + result views of calling fv with positional view sets `pos` and keyword view sets `kw`"""
        if not isinstance(fv, FuncVal):
            return EMPTY
        pos = list(fv.pos) + list(pos)
        kw = dict(fv.kw, **kw)
        if fv.kind == "qual":
            tf = self.index.funcs.get(fv.target)
            if tf is None:
                return EMPTY
            if tf.outer is not None and tf.qual not in self.o.byqual:
                return EMPTY
            a = tf.node.args
            names = [x.arg for x in a.posonlyargs + a.args]
            if tf.cls is not None and names:
                names = names[1:]
            binds = {}
            for i, v in enumerate(pos):
                if i < len(names):
                    binds[names[i]] = binds.get(names[i], EMPTY) | v
                elif a.vararg is not None:
                    binds[a.vararg.arg] = binds.get(a.vararg.arg, EMPTY) | box(v)
            for k, v in kw.items():
                if k in tf.params:
                    binds[k] = binds.get(k, EMPTY) | v
                elif a.kwarg is not None:
                    binds[a.kwarg.arg] = binds.get(a.kwarg.arg, EMPTY) | box(v)
            for v in star_kw:
                # f(**d): every keyword parameter may receive an element of d
                for n in names + [x.arg for x in a.kwonlyargs]:
                    binds[n] = binds.get(n, EMPTY) | elem(v)
            if tf.outer is not None:
                # nested function of another owner: cannot inline its closure; use nothing
                return EMPTY
            out = EMPTY
            for q in self.o.immutable.get(tf.qual, ()):
                binds.pop(q, None)
            for q, vs in binds.items():
                for L, wit in self.o.muts.get((tf.qual, q), {}).items():
                    self._mut(vs, site, via=(tf.qual, q, L), levels=(L,), via_attr=wit[2])
            for q, Lr, kr, ar in self.o.rets.get(tf.qual, EMPTY):
                for p, La, ka, aa in binds.get(q, EMPTY):
                    out |= frozenset([(p, _cap(La + Lr), min(CAP, max(kr, ka - Lr, 0)), ar | aa)])
            return out
        # lambda / nested def: inline
        node = fv.target
        if self.depth > 4:
            return EMPTY
        a = node.args
        names = [x.arg for x in a.posonlyargs + a.args]
        env2 = dict(fv.env if fv.env is not None else env)
        # the closure sees the current environment too (late binding)
        for k_, v_ in env.items():
            if k_ not in env2:
                env2[k_] = v_
            elif isinstance(v_, frozenset) and isinstance(env2[k_], frozenset):
                env2[k_] = env2[k_] | v_
        for n in names + [x.arg for x in a.kwonlyargs]:
            env2[n] = EMPTY
        for i, v in enumerate(pos):
            if i < len(names):
                env2[names[i]] = v
            elif a.vararg is not None:
                env2[a.vararg.arg] = env2.get(a.vararg.arg, EMPTY) | box(v)
        if a.vararg is not None and a.vararg.arg not in env2:
            env2[a.vararg.arg] = EMPTY
        for k, v in kw.items():
            env2[k] = v
        if isinstance(node, ast.Lambda):
            self.depth += 1
            try:
                r = self._eval(node.body, env2, scope)
            finally:
                self.depth -= 1
            return r
        inner = scope.nested.get(node.name) if scope is not None and hasattr(scope, "nested") else None
        self.depth += 1
        if not hasattr(self, "_ret_stack"):
            self._ret_stack = []
        self._ret_stack.append(set())
        try:
            self._body(node.body, env2, inner or scope)
        finally:
            self.depth -= 1
            r = frozenset(self._ret_stack.pop())
        return r
