"""
E4 — sink / effect inventory, matched on resolved callees.

kinds: EXEC (execution / import / spawn / network), FSWRITE (file-system mutation),
NONDET (non-deterministic API). Wrapper functions are inferred: a repo function that passes one
of its own parameters as the `mode` of `open` gets a summary `mode-param` and is classified at
each call site by folding the argument bound to that parameter.
"""

import ast

from .core import iter_own, short
from .fold import try_fold

EXEC_EXACT = {
    "builtins.eval": "eval",
    "builtins.exec": "exec",
    "builtins.compile": "compile",
    "builtins.__import__": "import",
    "importlib.import_module": "import",
    "importlib.__import__": "import",
    "importlib.reload": "import",
    "importlib.util.find_spec": "import",
    "importlib.util.spec_from_file_location": "import",
    "importlib.util.module_from_spec": "import",
    "pkgutil.get_loader": "import",
    "pkgutil.find_loader": "import",
    "pickle.load": "deserialise",
    "pickle.loads": "deserialise",
    "marshal.loads": "deserialise",
    "marshal.load": "deserialise",
    "yaml.load": "deserialise",
    "yaml.unsafe_load": "deserialise",
    "yaml.full_load": "deserialise",
    "os.system": "spawn",
    "os.popen": "spawn",
    "os.startfile": "spawn",
    "pty.spawn": "spawn",
    "code.interact": "exec",
    "builtins.breakpoint": "exec",
}
EXEC_PREFIX = {
    "subprocess.": "spawn",
    "multiprocessing.": "spawn",
    "os.exec": "spawn",
    "os.spawn": "spawn",
    "os.posix_spawn": "spawn",
    "os.fork": "spawn",
    "runpy.": "exec",
    "socket.": "network",
    "urllib.": "network",
    "http.": "network",
    "ftplib.": "network",
    "smtplib.": "network",
    "requests.": "network",
    "ssl.": "network",
    "asyncio.open_connection": "network",
    "asyncio.create_subprocess": "spawn",
    "ctypes.": "exec",
    "webbrowser.": "spawn",
    "xmlrpc.": "network",
}
# urllib.parse is pure string manipulation
EXEC_EXEMPT_PREFIX = ("urllib.parse.", "http.HTTPStatus")

FSWRITE_EXACT = frozenset(
    (
        "os.mkdir os.makedirs os.remove os.unlink os.rename os.renames os.replace os.rmdir "
        "os.removedirs os.truncate os.symlink os.link os.chmod os.chown os.utime os.mkfifo "
        "os.mknod os.open os.chdir os.putenv "
        "tempfile.mkstemp tempfile.mkdtemp tempfile.NamedTemporaryFile tempfile.TemporaryFile "
        "tempfile.TemporaryDirectory"
    ).split()
)
FSWRITE_PREFIX = ("shutil.", "fileinput.", "zipfile.", "tarfile.", "dbm.", "shelve.", "sqlite3.")
FSWRITE_METHODS = frozenset(
    "write_text write_bytes mkdir touch unlink rmdir rename replace symlink_to hardlink_to chmod".split()
)
# method names that are ambiguous with str/list methods are only matched on pathlib-looking receivers
AMBIGUOUS_METHODS = frozenset("replace rename".split())

NONDET_EXACT = frozenset(
    (
        "builtins.id builtins.hash os.getpid os.urandom os.getcwd os.times "
        "datetime.datetime.now datetime.datetime.utcnow datetime.datetime.today datetime.date.today "
        "os.listdir os.scandir os.walk glob.glob glob.iglob"
    ).split()
)
NONDET_PREFIX = ("random.", "time.", "uuid.", "secrets.", "threading.", "concurrent.")

OPEN_NAMES = frozenset(("builtins.open", "io.open", "codecs.open"))


def mode_is_write(mode):
    """does an open() mode string mutate the file system?"""
    return any(c in mode for c in "wax+")


class Effect(object):
    """one primitive effect site"""

    __slots__ = ("kind", "sub", "callee", "call", "func", "mod", "detail")

    def __init__(self, kind, sub, callee, call, func, mod, detail=""):
        self.kind = kind
        self.sub = sub
        self.callee = callee
        self.call = call
        self.func = func
        self.mod = mod
        self.detail = detail

    def where(self):
        """(module, function) location"""
        return self.func if self.func is not None else self.mod

    def __repr__(self):
        return "<{} {} {} in {}>".format(
            self.kind, self.sub, short(self.call, 50), self.func.qual if self.func else self.mod.name
        )


def open_mode_arg(call):
    """the AST of the mode argument of an open()-like call (None = default 'r')"""
    if len(call.args) > 1:
        return call.args[1]
    for k in call.keywords:
        if k.arg == "mode":
            return k.value
    return None


class Effects(object):
    """inventory over all non-test code"""

    def __init__(self, index, include_tests=False):
        self.index = index
        self.sites = []
        self.by_func = {}
        self.open_reads = []
        self.mode_wrappers = {}  # func qual -> (param name, position)
        funcs = [f for f in index.funcs.values() if include_tests or not f.mod.is_test]
        # pass 1: wrappers passing their own parameter as open mode
        for f in funcs:
            for n in iter_own(f.node):
                if isinstance(n, ast.Call) and index.callee(f.mod, n, f) in OPEN_NAMES:
                    mode = open_mode_arg(n)
                    if isinstance(mode, ast.Name) and mode.id in f.params:
                        self.mode_wrappers[f.qual] = (mode.id, f.params.index(mode.id))
        for f in funcs:
            for n in iter_own(f.node):
                if isinstance(n, ast.Call):
                    self._classify(f.mod, f, n)
        for name, m in index.modules.items():
            if m.is_test and not include_tests:
                continue
            for n in self._module_level_nodes(m):
                if isinstance(n, ast.Call):
                    self._classify(m, None, n)

    @staticmethod
    def _module_level_nodes(m):
        stack = list(m.tree.body)
        while stack:
            n = stack.pop()
            if isinstance(n, (ast.FunctionDef, ast.AsyncFunctionDef)):
                # decorators/defaults evaluated at import
                stack.extend(n.decorator_list)
                stack.extend(n.args.defaults)
                continue
            yield n
            stack.extend(ast.iter_child_nodes(n))

    def _add(self, kind, sub, callee, call, func, mod, detail=""):
        e = Effect(kind, sub, callee, call, func, mod, detail)
        self.sites.append(e)
        if func is not None:
            self.by_func.setdefault(func.qual, []).append(e)
        return e

    def _classify(self, m, f, call):
        idx = self.index
        callee = idx.callee(m, call, f)
        fn = call.func
        # dynamic call by name: getattr(<module or namespace>, <non-constant>)(...), globals()[x](...)
        if isinstance(fn, ast.Call) and idx.callee(m, fn, f) == "builtins.getattr" and len(fn.args) >= 2:
            tgt, name = fn.args[0], fn.args[1]
            if not isinstance(name, ast.Constant):
                r = idx.resolve(m, tgt, f) if isinstance(tgt, (ast.Name, ast.Attribute)) else None
                modlike = r is not None and (
                    r.split(".")[0] in ("builtins", "os", "sys", "subprocess", "importlib", "shutil", "operator")
                    or r in idx.modules
                )
                if modlike or (isinstance(tgt, ast.Call) and idx.callee(m, tgt, f) in ("importlib.import_module", "builtins.__import__")):
                    self._add("EXEC", "dynamic-call", "getattr({}, <name>)()".format(r or "import_module(...)"), call, f, m)
                    return
        if isinstance(fn, ast.Subscript) and isinstance(fn.value, ast.Call) and idx.callee(m, fn.value, f) in (
            "builtins.globals",
            "builtins.locals",
            "builtins.vars",
        ):
            if not isinstance(fn.slice, ast.Constant):
                self._add("EXEC", "dynamic-call", "globals()[<name>]()", call, f, m)
                return
        if callee is not None:
            if callee in EXEC_EXACT:
                self._add("EXEC", EXEC_EXACT[callee], callee, call, f, m)
                return
            if not callee.startswith(EXEC_EXEMPT_PREFIX):
                for p, sub in EXEC_PREFIX.items():
                    if callee.startswith(p):
                        self._add("EXEC", sub, callee, call, f, m)
                        return
            if callee in FSWRITE_EXACT or callee.startswith(FSWRITE_PREFIX):
                self._add("FSWRITE", "fs", callee, call, f, m)
                return
            if callee in NONDET_EXACT or callee.startswith(NONDET_PREFIX):
                self._add("NONDET", "nondet", callee, call, f, m)
                return
            if callee in OPEN_NAMES:
                mode = open_mode_arg(call)
                if mode is None:
                    self.open_reads.append((m, f, call))
                    return
                val = try_fold(mode)
                if isinstance(val, str):
                    if mode_is_write(val):
                        self._add("FSWRITE", "open:" + val, callee, call, f, m)
                    else:
                        self.open_reads.append((m, f, call))
                    return
                if (
                    f is not None
                    and isinstance(mode, ast.Name)
                    and self.mode_wrappers.get(f.qual, (None,))[0] == mode.id
                ):
                    self._add("FSWRITE", "open:<param {}>".format(mode.id), callee, call, f, m, "wrapper")
                    return
                self._add("FSWRITE", "open:<unknown mode>", callee, call, f, m)
                return
            if callee in ("json.dump", "pickle.dump", "yaml.dump", "yaml.safe_dump"):
                # writes to an already opened handle: the open() is the sink
                return
        if isinstance(fn, ast.Attribute) and fn.attr in FSWRITE_METHODS:
            # method on an unresolved (local object) receiver, e.g. Path(x).write_text(...)
            if callee is not None and not callee.startswith("pathlib."):
                return
            recv = short(fn.value, 60)
            if fn.attr in AMBIGUOUS_METHODS and not recv.startswith(("Path(", "pathlib.")):
                return
            self._add("FSWRITE", "method:" + fn.attr, callee or ("?." + fn.attr), call, f, m)
        # globals().update / globals()[k] = v handled by C10 (module state), not here

    # ----------------------------------------------------------- call-site view
    def wrapper_call_mode(self, m, f, call, callee_qual):
        """
        For a call to a mode wrapper, the folded mode string, or None when not constant.
        """
        pname, pos = self.mode_wrappers[callee_qual]
        target = self.index.funcs[callee_qual]
        node = None
        for k in call.keywords:
            if k.arg == pname:
                node = k.value
        if node is None and len(call.args) > pos and not any(
            isinstance(a, ast.Starred) for a in call.args[: pos + 1]
        ):
            node = call.args[pos]
        if node is None:
            # default value of the parameter
            a = target.node.args
            allp = a.posonlyargs + a.args
            names = [x.arg for x in allp]
            if pname in names:
                i = names.index(pname) - (len(allp) - len(a.defaults))
                if i >= 0:
                    node = a.defaults[i]
            else:
                names = [x.arg for x in a.kwonlyargs]
                if pname in names and a.kw_defaults[names.index(pname)] is not None:
                    node = a.kw_defaults[names.index(pname)]
        if node is None:
            return None
        v = try_fold(node)
        return v if isinstance(v, str) else None

    def may(self, graph, kind, direct_only_funcs=None):
        """
        least fixpoint: functions that may (transitively, over the reference graph) perform an
        effect of `kind`.  Returns {qual: one direct Effect or callee qual as witness}
        """
        may = {}
        for e in self.sites:
            if e.kind == kind and e.func is not None:
                may.setdefault(e.func.qual, e)
        changed = True
        while changed:
            changed = False
            for q, succ in graph.succ.items():
                if q in may:
                    continue
                for s in succ:
                    if s in may:
                        may[q] = s
                        changed = True
                        break
        return may
