"""
E8 — abstract interpreter for CPython's import protocol (>= 3.7 semantics).

Events are extracted from each module body in execution order (function bodies excluded, their
decorators / defaults / annotations included; class bodies and every arm of if/try included).
The machine keeps `sys.modules` (absent / loading / done) and, per module, the set of names bound
so far, and reports the first ImportError / AttributeError the real interpreter would raise.
"""

import ast

from .core import Index, attr_chain


class ImportFailure(Exception):
    """simulated import-time failure"""

    def __init__(self, kind, module, line, text, stack):
        Exception.__init__(self, text)
        self.kind = kind
        self.module = module
        self.line = line
        self.text = text
        self.stack = stack


import builtins as _b

_BUILTINS = frozenset(dir(_b))


def _own_calls(node):
    """Call nodes evaluated when `node` is (bodies of lambdas / nested functions excluded), innermost first"""
    out = []

    def rec(n):
        if isinstance(n, (ast.Lambda, ast.FunctionDef, ast.AsyncFunctionDef)):
            return
        for c in ast.iter_child_nodes(n):
            rec(c)
        if isinstance(n, ast.Call):
            out.append(n)

    rec(node)
    return out


_MAIN_GUARDS = frozenset(
    ast.dump(ast.parse(t, mode="eval").body) for t in ('__name__ == "__main__"', '"__main__" == __name__')
)


def _uses(node, out):
    """attribute chains / names evaluated when `node` is executed at import time"""

    def rec(n):
        if isinstance(n, (ast.FunctionDef, ast.AsyncFunctionDef)):
            for d in n.decorator_list:
                rec(d)
            a = n.args
            for d in a.defaults + [x for x in a.kw_defaults if x is not None]:
                rec(d)
            for x in a.posonlyargs + a.args + a.kwonlyargs + [a.vararg, a.kwarg]:
                if x is not None and x.annotation is not None:
                    rec(x.annotation)
            if n.returns is not None:
                rec(n.returns)
            return
        if isinstance(n, ast.Lambda):
            for d in n.args.defaults + [x for x in n.args.kw_defaults if x is not None]:
                rec(d)
            return
        if isinstance(n, ast.Attribute):
            ch = attr_chain(n)
            if ch is not None:
                if isinstance(n.ctx, ast.Load):
                    out.append((ch, n.lineno))
                else:
                    out.append((ch[:-1], n.lineno))
                return
            rec(n.value)
            return
        if isinstance(n, ast.Name):
            if isinstance(n.ctx, ast.Load):
                out.append(([n.id], n.lineno))
            return
        for c in ast.iter_child_nodes(n):
            rec(c)

    rec(node)


FORCERS = frozenset(
    "list tuple set frozenset dict sorted next any all sum min max deque OrderedDict enumerate zip reversed".split()
)
HIGHER_ORDER = frozenset(("builtins.map", "builtins.filter", "itertools.starmap", "functools.reduce"))


def _forced(m, c):
    """is the lazy iterator built by call `c` consumed where it is built?"""
    p = m.parents.get(c)
    if isinstance(p, ast.Starred):
        return True
    if isinstance(p, ast.Call) and c in p.args:
        fn = p.func
        nm = fn.id if isinstance(fn, ast.Name) else (fn.attr if isinstance(fn, ast.Attribute) else "")
        return nm in FORCERS or nm in ("join", "extend", "update", "map", "filter", "chain", "from_iterable")
    if isinstance(p, (ast.Assign,)) and p.value is c:
        return any(isinstance(t, (ast.Tuple, ast.List)) for t in p.targets)
    if isinstance(p, (ast.For, ast.comprehension)) and p.iter is c:
        return True
    return False


def _call_sites(node, m, index, out):
    """
    repo functions whose BODY runs when `node` is evaluated at import time:
    (qualified name, [positional arg nodes] | None when unknown, {kw: node}, line)
    """

    def elements(it):
        if isinstance(it, (ast.Tuple, ast.List, ast.Set)):
            return list(it.elts)
        return None

    def rec(n):
        if isinstance(n, (ast.FunctionDef, ast.AsyncFunctionDef)):
            for d in n.decorator_list + n.args.defaults + [x for x in n.args.kw_defaults if x is not None]:
                rec(d)
            return
        if isinstance(n, ast.Lambda):
            for d in n.args.defaults + [x for x in n.args.kw_defaults if x is not None]:
                rec(d)
            return
        for c in ast.iter_child_nodes(n):
            rec(c)
        if not isinstance(n, ast.Call):
            return
        q = index.callee(m, n, None)
        if q in index.funcs:
            out.append((q, list(n.args), {k.arg: k.value for k in n.keywords if k.arg}, n.lineno))
            return
        if q in HIGHER_ORDER and n.args and _forced(m, n):
            fn = n.args[0]
            pre, kws = [], {}
            if isinstance(fn, ast.Call) and (index.callee(m, fn, None) or "").rpartition(".")[2] in ("partial",) and fn.args:
                pre, kws = list(fn.args[1:]), {k.arg: k.value for k in fn.keywords if k.arg}
                fn = fn.args[0]
            if isinstance(fn, (ast.Name, ast.Attribute)):
                r = index.resolve(m, fn, None)
                if r in index.funcs:
                    els = elements(n.args[1]) if len(n.args) == 2 else None
                    if els is None:
                        out.append((r, None, kws, n.lineno))
                    else:
                        for e in els:
                            out.append((r, pre + [e], kws, n.lineno))

    rec(node)


def module_events(m, index=None):
    """ordered import-time events of module m"""
    ev = []

    def add_uses(node):
        tmp = []
        _uses(node, tmp)
        for ch, ln in tmp:
            ev.append(("use", ch, ln))
        if index is not None:
            calls = []
            _call_sites(node, m, index, calls)
            for q, args, kws, ln in calls:
                ev.append(("call", q, args, kws, ln))

    def stmt(s, in_class=False):
        if isinstance(s, ast.Import):
            for a in s.names:
                ev.append(
                    (
                        "import",
                        a.name,
                        a.asname or a.name.split(".")[0],
                        s.lineno,
                        a.asname is not None,
                    )
                )
        elif isinstance(s, ast.ImportFrom):
            base = Index.abs_from(m, s)
            ev.append(
                ("from", base, [(a.name, a.asname or a.name) for a in s.names], s.lineno)
            )
        elif isinstance(s, (ast.FunctionDef, ast.AsyncFunctionDef)):
            add_uses(s)
            if not in_class:
                ev.append(("bind", s.name, s.lineno, None))
        elif isinstance(s, ast.ClassDef):
            for x in s.bases + s.decorator_list + [k.value for k in s.keywords]:
                add_uses(x)
            for b in s.body:
                stmt(b, True)
            if not in_class:
                ev.append(("bind", s.name, s.lineno, None))
        elif isinstance(s, (ast.If, ast.While)):
            add_uses(s.test)
            main_guard = isinstance(s, ast.If) and ast.dump(s.test) in _MAIN_GUARDS
            mark = len(ev)
            for b in s.body:
                stmt(b, in_class)
            if main_guard:
                # only executed when the module is run as a script, after its body completed
                ev[mark:] = [e for e in ev[mark:] if e[0] != "call"]
            for b in s.orelse:
                stmt(b, in_class)
        elif isinstance(s, (ast.For, ast.AsyncFor)):
            add_uses(s.iter)
            if not in_class:
                for n in ast.walk(s.target):
                    if isinstance(n, ast.Name):
                        ev.append(("bind", n.id, s.lineno, None))
            for b in s.body + s.orelse:
                stmt(b, in_class)
        elif isinstance(s, (ast.With, ast.AsyncWith)):
            for it in s.items:
                add_uses(it.context_expr)
                if it.optional_vars is not None and not in_class:
                    for n in ast.walk(it.optional_vars):
                        if isinstance(n, ast.Name):
                            ev.append(("bind", n.id, s.lineno, None))
            for b in s.body:
                stmt(b, in_class)
        elif isinstance(s, ast.Try):
            for b in s.body:
                stmt(b, in_class)
            for h in s.handlers:
                for b in h.body:
                    stmt(b, in_class)
            for b in s.orelse + s.finalbody:
                stmt(b, in_class)
        else:
            add_uses(s)
            if in_class:
                return
            value = getattr(s, "value", None)
            alias = None
            if isinstance(s, ast.Assign) and isinstance(value, (ast.Name, ast.Attribute)):
                alias = attr_chain(value)
            for n in ast.walk(s):
                if isinstance(n, ast.Name) and isinstance(n.ctx, ast.Store):
                    ev.append(("bind", n.id, s.lineno, alias))
                elif isinstance(n, ast.Name) and isinstance(n.ctx, ast.Del):
                    ev.append(("unbind", n.id, s.lineno))

    for s in m.tree.body:
        stmt(s)
    return ev


def static_all(m):
    """the names listed by `__all__ = [...]` in module m, or None when absent / not a literal"""
    out = None
    for s in m.tree.body:
        if isinstance(s, (ast.Assign, ast.AnnAssign)) and s.value is not None:
            tg = s.targets if isinstance(s, ast.Assign) else [s.target]
            if any(isinstance(t, ast.Name) and t.id == "__all__" for t in tg):
                v = s.value
                if isinstance(v, (ast.List, ast.Tuple)) and all(
                    isinstance(e, ast.Constant) and isinstance(e.value, str) for e in v.elts
                ):
                    out = [e.value for e in v.elts]
                else:
                    out = None
    return out


class ImportMachine(object):
    """the abstract machine; `events` is {module name: event list}"""

    def __init__(self, index, events=None, calls=True):
        self.index = index
        self.mods = index.modules
        self.events = events or {n: module_events(m, index if calls else None) for n, m in index.modules.items()}
        self.all_lists = {n: static_all(m) for n, m in index.modules.items()}
        self._env = None
        self._frame_names = {}
        self.calls_executed = 0

    def env(self):
        """constant folder over module-level tables (lazy)"""
        if self._env is None:
            from .fold import ModuleEnv

            self._env = ModuleEnv(self.index)
        return self._env

    def frame_names(self, f):
        """every name a call of f may bind locally (over-approximation: nested scopes included)"""
        r = self._frame_names.get(f.qual)
        if r is None:
            r = set(f.params)
            for n in ast.walk(f.node):
                if isinstance(n, ast.Name) and isinstance(n.ctx, (ast.Store, ast.Del)):
                    r.add(n.id)
                elif isinstance(n, ast.arg):
                    r.add(n.arg)
                elif isinstance(n, (ast.FunctionDef, ast.AsyncFunctionDef, ast.ClassDef)) and n is not f.node:
                    r.add(n.name)
                elif isinstance(n, ast.ExceptHandler) and n.name:
                    r.add(n.name)
                elif isinstance(n, ast.alias):
                    r.add((n.asname or n.name).split(".")[0])
            for n in ast.walk(f.node):
                if isinstance(n, (ast.Global, ast.Nonlocal)):
                    r.difference_update(n.names)
            self._frame_names[f.qual] = r
        return r

    def run(self, order):
        """
        simulate importing the modules of `order` in sequence in a fresh interpreter

        :return: (ImportFailure | None, ns) where ns maps module -> frozenset of bound names
        """
        state = {}
        ns = {}
        modval = {}  # (module, name) -> dotted module that name is bound to
        mods = self.mods
        events = self.events

        def ensure(name, stack):
            if name in mods and name not in state:
                load(name, stack)

        def load(m, stack):
            parent = m.rpartition(".")[0]
            if parent:
                ensure(parent, stack)
                if m in state:
                    return
            state[m] = "loading"
            bound = ns[m] = set(("__name__", "__file__", "__doc__", "__package__"))
            if mods[m].is_pkg:
                bound.add("__path__")
            def bind_mod(name, tgt, _m=m, _bound=bound):
                _bound.add(name)
                if tgt is not None:
                    modval[(_m, name)] = tgt

            for e in events[m]:
                k = e[0]
                if k == "import":
                    _, dotted, bind, ln, has_as = e
                    do_import(m, dotted, ln, stack + [(m, ln)])
                    bound.add(bind)
                    modval[(m, bind)] = dotted if has_as else dotted.split(".")[0]
                elif k == "from":
                    _, base, names, ln = e
                    do_from(m, base, names, ln, stack + [(m, ln)], bind_mod)
                elif k == "call":
                    _, q, args, kws, ln = e
                    exec_call(q, args, kws, {}, stack + [(m, ln)], 0)
                elif k == "bind":
                    bound.add(e[1])
                    alias = e[3]
                    modval.pop((m, e[1]), None)
                    if alias is not None:
                        tgt = walk(m, alias, e[2], stack, check=False)
                        if tgt is not None:
                            modval[(m, e[1])] = tgt
                elif k == "unbind":
                    bound.discard(e[1])
                    modval.pop((m, e[1]), None)
                elif k == "use":
                    walk(m, e[1], e[2], stack, check=True)
            state[m] = "done"
            if parent and parent in mods:
                ns[parent].add(m.rpartition(".")[2])
                modval[(parent, m.rpartition(".")[2])] = m

        def do_import(m, dotted, ln, here):
            parts = dotted.split(".")
            for i in range(1, len(parts) + 1):
                pre = ".".join(parts[:i])
                if i > 1 and ".".join(parts[: i - 1]) in mods and pre not in mods:
                    raise ImportFailure(
                        "ModuleNotFoundError",
                        m,
                        ln,
                        "No module named {!r}".format(pre),
                        here,
                    )
                ensure(pre, here)

        def do_from(m, base, names, ln, here, bind):
            """`from base import names` executed in module m; bind(name, module target | None) records each binding"""
            if True:
                if True:
                    if base.split(".")[0] == "cdd" and base not in mods:
                        raise ImportFailure(
                            "ModuleNotFoundError",
                            m,
                            ln,
                            "No module named {!r}".format(base),
                            here,
                        )
                    # parents of base first
                    parts = base.split(".")
                    for i in range(1, len(parts) + 1):
                        ensure(".".join(parts[:i]), here)
                    for name, asname in names:
                        if base in mods:
                            if name == "*":
                                # `from M import *`: the names of M.__all__ if it is bound by now,
                                # otherwise every public name bound in M so far
                                have = ns.get(base, set())
                                listed = self.all_lists.get(base)
                                if "__all__" in have and listed is not None:
                                    for nm in listed:
                                        if nm not in have and base + "." + nm not in mods:
                                            raise ImportFailure(
                                                "AttributeError",
                                                m,
                                                ln,
                                                "module {!r} has no attribute {!r} (listed in __all__) at the "
                                                "time of the star-import".format(base, nm),
                                                here,
                                            )
                                        bind(nm, modval.get((base, nm)))
                                else:
                                    for nm in sorted(have):
                                        if not nm.startswith("_"):
                                            bind(nm, modval.get((base, nm)))
                                continue
                            tgt = None
                            if name in ns.get(base, ()):
                                tgt = modval.get((base, name))
                                if tgt is None and base + "." + name in mods:
                                    tgt = base + "." + name
                            elif base + "." + name in mods and mods[base].is_pkg:
                                ensure(base + "." + name, here)
                                tgt = base + "." + name
                            elif state.get(base) == "loading":
                                raise ImportFailure(
                                    "ImportError",
                                    m,
                                    ln,
                                    "cannot import name {!r} from partially initialized module {!r} "
                                    "(most likely due to a circular import)".format(name, base),
                                    here,
                                )
                            else:
                                raise ImportFailure(
                                    "ImportError",
                                    m,
                                    ln,
                                    "cannot import name {!r} from {!r}".format(name, base),
                                    here,
                                )
                            bind(asname, tgt)
                        elif name != "*":
                            bind(asname, None)

        active = set()

        def exec_call(q, args, kws, caller_env, stack, depth):
            """
            run the body of repo function q as the interpreter would at this point of the import:
            function-local imports, module attribute chains, global names of a still-loading module,
            nested calls and import_module(...) with a foldable argument.
            """
            from .fold import Unknown, fold

            f = self.index.funcs.get(q)
            if f is None or depth > 6 or q in active:
                return
            M = f.mod.name
            if M not in state:
                return
            self.calls_executed += 1
            active.add(q)
            names = self.frame_names(f)
            fmod = {}  # local name -> dotted module (function-local imports)
            local = {}  # local name -> constant
            res = self.env()._resolver(f.mod, local)

            def val(node, env=None):
                try:
                    return True, fold(node, local if env is None else env, res if env is None else self.env()._resolver(f.mod, env))
                except Unknown:
                    return False, None
                except Exception:
                    return False, None

            if args is not None:
                for i, a in enumerate(args):
                    if isinstance(a, ast.Starred):
                        break
                    if i < len(f.params):
                        try:
                            local[f.params[i]] = fold(a, dict(caller_env), None)
                        except Exception:
                            pass
                for k_, v_ in (kws or {}).items():
                    try:
                        local[k_] = fold(v_, dict(caller_env), None)
                    except Exception:
                        pass
                # defaults of parameters not supplied
                a_ = f.node.args
                pos = a_.posonlyargs + a_.args
                for prm, d in zip(pos[len(pos) - len(a_.defaults):], a_.defaults):
                    if prm.arg not in local and (kws is None or prm.arg not in kws) and pos.index(prm) >= len(args):
                        try:
                            local[prm.arg] = fold(d, {}, None)
                        except Exception:
                            pass

            def bind_local(name, tgt):
                names.add(name)
                if tgt is not None:
                    fmod[name] = tgt
                else:
                    fmod.pop(name, None)

            def use(ch, ln):
                root = ch[0]
                here = stack + [(M, ln)]
                if root in fmod:
                    walk(M, ch, ln, stack, True, first=fmod[root])
                elif root in names:
                    return
                elif root in ns[M]:
                    walk(M, ch, ln, stack, True)
                elif root in _BUILTINS:
                    return
                elif state.get(M) == "loading":
                    raise ImportFailure(
                        "NameError",
                        M,
                        ln,
                        "name {!r} is not defined: {}() runs at import time (called from {} line {}) while module {} "
                        "has not bound it yet".format(root, f.node.name, stack[-1][0], stack[-1][1], M),
                        here,
                    )

            def dynamic(c, ln):
                here = stack + [(M, ln)]
                ok_, v = val(c.args[0]) if c.args else (False, None)
                if not ok_ or not isinstance(v, str):
                    raise ImportFailure(
                        "DynamicImport",
                        M,
                        ln,
                        "{}() runs at import time (called from {} line {}) and imports a module whose name cannot be "
                        "determined statically: {}".format(f.node.name, stack[-1][0], stack[-1][1], ast.unparse(c)[:80]),
                        here,
                    )
                if v.split(".")[0] != "cdd":
                    return None
                do_import(M, v, ln, here)
                return v

            def expr(node):
                if node is None:
                    return
                tmp = []
                _uses(node, tmp)
                for ch, ln in tmp:
                    use(ch, ln)
                for c in _own_calls(node):
                    q2 = self.index.callee(f.mod, c, f)
                    if q2 in ("importlib.import_module", "builtins.__import__"):
                        tgt = dynamic(c, c.lineno)
                        p_ = f.mod.parents.get(c)
                        if tgt and isinstance(p_, ast.Call) and isinstance(p_.func, ast.Name) and p_.func.id == "getattr" and len(p_.args) >= 2 and p_.args[0] is c:
                            ok_, attr = val(p_.args[1])
                            if ok_ and isinstance(attr, str) and len(p_.args) == 2 and attr not in ns.get(tgt, ()) and tgt + "." + attr not in mods:
                                raise ImportFailure(
                                    "AttributeError",
                                    M,
                                    c.lineno,
                                    "getattr(import_module({!r}), {!r}): {} module {!r} has no attribute {!r} "
                                    "({}() runs at import time, called from {} line {})".format(
                                        tgt, attr, "partially initialized" if state.get(tgt) == "loading" else "", tgt, attr, f.node.name, stack[-1][0], stack[-1][1]
                                    ),
                                    stack + [(M, c.lineno)],
                                )
                    elif q2 in self.index.funcs:
                        exec_call(q2, list(c.args), {k.arg: k.value for k in c.keywords if k.arg}, local, stack + [(M, c.lineno)], depth + 1)

            def run(stmts):
                for st in stmts:
                    if isinstance(st, ast.Import):
                        for a in st.names:
                            do_import(M, a.name, st.lineno, stack + [(M, st.lineno)])
                            bind_local(a.asname or a.name.split(".")[0], a.name if a.asname else a.name.split(".")[0])
                    elif isinstance(st, ast.ImportFrom):
                        base = Index.abs_from(f.mod, st)
                        do_from(M, base, [(a.name, a.asname or a.name) for a in st.names], st.lineno, stack + [(M, st.lineno)], bind_local)
                    elif isinstance(st, ast.If):
                        expr(st.test)
                        ok_, v = val(st.test)
                        if ok_:
                            run(st.body if v else st.orelse)
                        else:
                            run(st.body)
                            run(st.orelse)
                    elif isinstance(st, (ast.For, ast.AsyncFor)):
                        expr(st.iter)
                        run(st.body)
                        run(st.orelse)
                    elif isinstance(st, ast.While):
                        expr(st.test)
                        run(st.body)
                        run(st.orelse)
                    elif isinstance(st, (ast.With, ast.AsyncWith)):
                        for it in st.items:
                            expr(it.context_expr)
                        run(st.body)
                    elif isinstance(st, ast.Try):
                        run(st.body)
                        for h in st.handlers:
                            run(h.body)
                        run(st.orelse)
                        run(st.finalbody)
                    elif isinstance(st, (ast.FunctionDef, ast.AsyncFunctionDef, ast.ClassDef)):
                        for d in st.decorator_list:
                            expr(d)
                    elif isinstance(st, (ast.Assign, ast.AnnAssign, ast.AugAssign)):
                        expr(st.value)
                        tg = st.targets if isinstance(st, ast.Assign) else [st.target]
                        for t in tg:
                            if isinstance(t, ast.Name):
                                ok_, v = val(st.value) if (st.value is not None and not isinstance(st, ast.AugAssign)) else (False, None)
                                if ok_:
                                    local[t.id] = v
                                else:
                                    local.pop(t.id, None)
                                fmod.pop(t.id, None)
                            else:
                                expr(t)
                    elif isinstance(st, (ast.Return, ast.Expr)):
                        expr(st.value)
                    elif isinstance(st, (ast.Raise, ast.Assert, ast.Delete)):
                        for c_ in ast.iter_child_nodes(st):
                            expr(c_)

            try:
                run(f.node.body)
            finally:
                active.discard(q)

        def walk(m, chain, ln, stack, check, first=None):
            """follow an attribute chain through module-valued bindings"""
            if not chain:
                return None
            cur = first if first is not None else modval.get((m, chain[0]))
            if cur is None or (first is None and chain[0] not in ns[m]):
                return None
            for attr in chain[1:]:
                if cur not in mods:
                    return None
                if attr in ns.get(cur, ()):
                    nxt = modval.get((cur, attr))
                    if nxt is None:
                        return None
                    cur = nxt
                else:
                    if check:
                        raise ImportFailure(
                            "AttributeError",
                            m,
                            ln,
                            "{}: {} module {!r} has no attribute {!r}".format(
                                ".".join(chain),
                                "partially initialized"
                                if state.get(cur) == "loading"
                                else "",
                                cur,
                                attr,
                            ),
                            stack + [(m, ln)],
                        )
                    return None
            return cur

        for m in order:
            try:
                if m not in mods:
                    raise ImportFailure(
                        "ModuleNotFoundError", m, 0, "No module named {!r}".format(m), []
                    )
                parts = m.split(".")
                for i in range(1, len(parts) + 1):
                    ensure(".".join(parts[:i]), [])
            except ImportFailure as f:
                return f, None
        return None, {k: frozenset(v) for k, v in ns.items()}
