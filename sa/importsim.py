"""
E8 — abstract interpreter for CPython's import protocol (>= 3.7 semantics).

Events are extracted from each module body in execution order (function bodies excluded, their
decorators / defaults / annotations included; class bodies and every arm of if/try included).
The machine keeps `sys.modules` (absent / loading / done) and, per module, the set of names bound
so far, and reports the first ImportError / AttributeError the real interpreter would raise.
"""

import ast

from .core import Index, attr_chain


class ImportFailure(Exception):
    """simulated import-time failure"""

    def __init__(self, kind, module, line, text, stack):
        Exception.__init__(self, text)
        self.kind = kind
        self.module = module
        self.line = line
        self.text = text
        self.stack = stack


def _uses(node, out):
    """attribute chains / names evaluated when `node` is executed at import time"""

    def rec(n):
        if isinstance(n, (ast.FunctionDef, ast.AsyncFunctionDef)):
            for d in n.decorator_list:
                rec(d)
            a = n.args
            for d in a.defaults + [x for x in a.kw_defaults if x is not None]:
                rec(d)
            for x in a.posonlyargs + a.args + a.kwonlyargs + [a.vararg, a.kwarg]:
                if x is not None and x.annotation is not None:
                    rec(x.annotation)
            if n.returns is not None:
                rec(n.returns)
            return
        if isinstance(n, ast.Lambda):
            for d in n.args.defaults + [x for x in n.args.kw_defaults if x is not None]:
                rec(d)
            return
        if isinstance(n, ast.Attribute):
            ch = attr_chain(n)
            if ch is not None:
                if isinstance(n.ctx, ast.Load):
                    out.append((ch, n.lineno))
                else:
                    out.append((ch[:-1], n.lineno))
                return
            rec(n.value)
            return
        if isinstance(n, ast.Name):
            if isinstance(n.ctx, ast.Load):
                out.append(([n.id], n.lineno))
            return
        for c in ast.iter_child_nodes(n):
            rec(c)

    rec(node)


def module_events(m):
    """ordered import-time events of module m"""
    ev = []

    def add_uses(node):
        tmp = []
        _uses(node, tmp)
        for ch, ln in tmp:
            ev.append(("use", ch, ln))

    def stmt(s, in_class=False):
        if isinstance(s, ast.Import):
            for a in s.names:
                ev.append(
                    (
                        "import",
                        a.name,
                        a.asname or a.name.split(".")[0],
                        s.lineno,
                        a.asname is not None,
                    )
                )
        elif isinstance(s, ast.ImportFrom):
            base = Index.abs_from(m, s)
            ev.append(
                ("from", base, [(a.name, a.asname or a.name) for a in s.names], s.lineno)
            )
        elif isinstance(s, (ast.FunctionDef, ast.AsyncFunctionDef)):
            add_uses(s)
            if not in_class:
                ev.append(("bind", s.name, s.lineno, None))
        elif isinstance(s, ast.ClassDef):
            for x in s.bases + s.decorator_list + [k.value for k in s.keywords]:
                add_uses(x)
            for b in s.body:
                stmt(b, True)
            if not in_class:
                ev.append(("bind", s.name, s.lineno, None))
        elif isinstance(s, (ast.If, ast.While)):
            add_uses(s.test)
            for b in s.body:
                stmt(b, in_class)
            for b in s.orelse:
                stmt(b, in_class)
        elif isinstance(s, (ast.For, ast.AsyncFor)):
            add_uses(s.iter)
            if not in_class:
                for n in ast.walk(s.target):
                    if isinstance(n, ast.Name):
                        ev.append(("bind", n.id, s.lineno, None))
            for b in s.body + s.orelse:
                stmt(b, in_class)
        elif isinstance(s, (ast.With, ast.AsyncWith)):
            for it in s.items:
                add_uses(it.context_expr)
                if it.optional_vars is not None and not in_class:
                    for n in ast.walk(it.optional_vars):
                        if isinstance(n, ast.Name):
                            ev.append(("bind", n.id, s.lineno, None))
            for b in s.body:
                stmt(b, in_class)
        elif isinstance(s, ast.Try):
            for b in s.body:
                stmt(b, in_class)
            for h in s.handlers:
                for b in h.body:
                    stmt(b, in_class)
            for b in s.orelse + s.finalbody:
                stmt(b, in_class)
        else:
            add_uses(s)
            if in_class:
                return
            value = getattr(s, "value", None)
            alias = None
            if isinstance(s, ast.Assign) and isinstance(value, (ast.Name, ast.Attribute)):
                alias = attr_chain(value)
            for n in ast.walk(s):
                if isinstance(n, ast.Name) and isinstance(n.ctx, ast.Store):
                    ev.append(("bind", n.id, s.lineno, alias))
                elif isinstance(n, ast.Name) and isinstance(n.ctx, ast.Del):
                    ev.append(("unbind", n.id, s.lineno))

    for s in m.tree.body:
        stmt(s)
    return ev


def static_all(m):
    """the names listed by `__all__ = [...]` in module m, or None when absent / not a literal"""
    out = None
    for s in m.tree.body:
        if isinstance(s, (ast.Assign, ast.AnnAssign)) and s.value is not None:
            tg = s.targets if isinstance(s, ast.Assign) else [s.target]
            if any(isinstance(t, ast.Name) and t.id == "__all__" for t in tg):
                v = s.value
                if isinstance(v, (ast.List, ast.Tuple)) and all(
                    isinstance(e, ast.Constant) and isinstance(e.value, str) for e in v.elts
                ):
                    out = [e.value for e in v.elts]
                else:
                    out = None
    return out


class ImportMachine(object):
    """the abstract machine; `events` is {module name: event list}"""

    def __init__(self, index, events=None):
        self.index = index
        self.mods = index.modules
        self.events = events or {n: module_events(m) for n, m in index.modules.items()}
        self.all_lists = {n: static_all(m) for n, m in index.modules.items()}

    def run(self, order):
        """
        simulate importing the modules of `order` in sequence in a fresh interpreter

        :return: (ImportFailure | None, ns) where ns maps module -> frozenset of bound names
        """
        state = {}
        ns = {}
        modval = {}  # (module, name) -> dotted module that name is bound to
        mods = self.mods
        events = self.events

        def ensure(name, stack):
            if name in mods and name not in state:
                load(name, stack)

        def load(m, stack):
            parent = m.rpartition(".")[0]
            if parent:
                ensure(parent, stack)
                if m in state:
                    return
            state[m] = "loading"
            bound = ns[m] = set(("__name__", "__file__", "__doc__", "__package__"))
            if mods[m].is_pkg:
                bound.add("__path__")
            for e in events[m]:
                k = e[0]
                if k == "import":
                    _, dotted, bind, ln, has_as = e
                    parts = dotted.split(".")
                    here = stack + [(m, ln)]
                    for i in range(1, len(parts) + 1):
                        pre = ".".join(parts[:i])
                        if i > 1 and ".".join(parts[: i - 1]) in mods and pre not in mods:
                            raise ImportFailure(
                                "ModuleNotFoundError",
                                m,
                                ln,
                                "No module named {!r}".format(pre),
                                here,
                            )
                        ensure(pre, here)
                    bound.add(bind)
                    modval[(m, bind)] = dotted if has_as else parts[0]
                elif k == "from":
                    _, base, names, ln = e
                    here = stack + [(m, ln)]
                    if base.split(".")[0] == "cdd" and base not in mods:
                        raise ImportFailure(
                            "ModuleNotFoundError",
                            m,
                            ln,
                            "No module named {!r}".format(base),
                            here,
                        )
                    # parents of base first
                    parts = base.split(".")
                    for i in range(1, len(parts) + 1):
                        ensure(".".join(parts[:i]), here)
                    for name, asname in names:
                        if base in mods:
                            if name == "*":
                                # `from M import *`: the names of M.__all__ if it is bound by now,
                                # otherwise every public name bound in M so far
                                have = ns.get(base, set())
                                listed = self.all_lists.get(base)
                                if "__all__" in have and listed is not None:
                                    for nm in listed:
                                        if nm not in have and base + "." + nm not in mods:
                                            raise ImportFailure(
                                                "AttributeError",
                                                m,
                                                ln,
                                                "module {!r} has no attribute {!r} (listed in __all__) at the "
                                                "time of the star-import".format(base, nm),
                                                here,
                                            )
                                        bound.add(nm)
                                        tgt = modval.get((base, nm))
                                        if tgt is not None:
                                            modval[(m, nm)] = tgt
                                else:
                                    for nm in sorted(have):
                                        if not nm.startswith("_"):
                                            bound.add(nm)
                                            tgt = modval.get((base, nm))
                                            if tgt is not None:
                                                modval[(m, nm)] = tgt
                                continue
                            if name in ns.get(base, ()):
                                tgt = modval.get((base, name))
                                if tgt is None and base + "." + name in mods:
                                    tgt = base + "." + name
                                if tgt is not None:
                                    modval[(m, asname)] = tgt
                            elif base + "." + name in mods and mods[base].is_pkg:
                                ensure(base + "." + name, here)
                                modval[(m, asname)] = base + "." + name
                            elif state.get(base) == "loading":
                                raise ImportFailure(
                                    "ImportError",
                                    m,
                                    ln,
                                    "cannot import name {!r} from partially initialized module {!r} "
                                    "(most likely due to a circular import)".format(name, base),
                                    here,
                                )
                            else:
                                raise ImportFailure(
                                    "ImportError",
                                    m,
                                    ln,
                                    "cannot import name {!r} from {!r}".format(name, base),
                                    here,
                                )
                        if name != "*":
                            bound.add(asname)
                elif k == "bind":
                    bound.add(e[1])
                    alias = e[3]
                    modval.pop((m, e[1]), None)
                    if alias is not None:
                        tgt = walk(m, alias, e[2], stack, check=False)
                        if tgt is not None:
                            modval[(m, e[1])] = tgt
                elif k == "unbind":
                    bound.discard(e[1])
                    modval.pop((m, e[1]), None)
                elif k == "use":
                    walk(m, e[1], e[2], stack, check=True)
            state[m] = "done"
            if parent and parent in mods:
                ns[parent].add(m.rpartition(".")[2])
                modval[(parent, m.rpartition(".")[2])] = m

        def walk(m, chain, ln, stack, check):
            """follow an attribute chain through module-valued bindings"""
            if not chain:
                return None
            cur = modval.get((m, chain[0]))
            if cur is None or chain[0] not in ns[m]:
                return None
            for attr in chain[1:]:
                if cur not in mods:
                    return None
                if attr in ns.get(cur, ()):
                    nxt = modval.get((cur, attr))
                    if nxt is None:
                        return None
                    cur = nxt
                else:
                    if check:
                        raise ImportFailure(
                            "AttributeError",
                            m,
                            ln,
                            "{}: {} module {!r} has no attribute {!r}".format(
                                ".".join(chain),
                                "partially initialized"
                                if state.get(cur) == "loading"
                                else "",
                                cur,
                                attr,
                            ),
                            stack + [(m, ln)],
                        )
                    return None
            return cur

        for m in order:
            try:
                if m not in mods:
                    raise ImportFailure(
                        "ModuleNotFoundError", m, 0, "No module named {!r}".format(m), []
                    )
                parts = m.split(".")
                for i in range(1, len(parts) + 1):
                    ensure(".".join(parts[:i]), [])
            except ImportFailure as f:
                return f, None
        return None, {k: frozenset(v) for k, v in ns.items()}
