"""
One-shot iterator analysis: a value that can only be iterated once (map / filter / zip / generator
expression / chain / islice / iter / reversed / enumerate, or the result of a repository function
that returns one) must not be consumed at two program points that can both execute.
"""

import ast

from .core import iter_own, short, stored_names

ONE_SHOT_CALLS = frozenset(
    (
        "builtins.map builtins.filter builtins.zip builtins.iter builtins.reversed builtins.enumerate "
        "itertools.chain itertools.chain.from_iterable itertools.islice itertools.filterfalse "
        "itertools.takewhile itertools.dropwhile itertools.starmap itertools.zip_longest "
        "itertools.groupby itertools.accumulate itertools.product itertools.count itertools.cycle"
    ).split()
)
NON_CONSUMING_CALLS = frozenset(
    "builtins.isinstance builtins.hasattr builtins.id builtins.type builtins.callable builtins.print".split()
)


class OneShot(object):
    """the analysis"""

    def __init__(self, index, funcs):
        self.index = index
        self.funcs = list(funcs)
        self.ret = {}  # qual -> True when the function may return a one-shot iterator
        self.param = {}  # (qual, param) -> True when a caller may pass a one-shot iterator
        self.reports = []
        self.sites = 0

    def is_oneshot(self, f, e, depth=0):
        """may expression e evaluate to a one-shot iterator?"""
        idx = self.index
        if isinstance(e, ast.GeneratorExp):
            return True
        if isinstance(e, ast.IfExp):
            return self.is_oneshot(f, e.body, depth) or self.is_oneshot(f, e.orelse, depth)
        if isinstance(e, ast.BoolOp):
            return any(self.is_oneshot(f, v, depth) for v in e.values)
        if isinstance(e, ast.Call):
            callee = idx.callee(f.mod, e, f)
            if callee in ("builtins.iter", "itertools.count", "itertools.cycle") and depth > 0:
                # a name bound directly to iter(...)/count(): the author handles it as an iterator
                return False
            if callee in ONE_SHOT_CALLS:
                return True
            if callee in self.ret:
                return self.ret[callee]
            return False
        if isinstance(e, ast.Name) and depth < 4:
            if e.id in f.params and self.param.get((f.qual, e.id)):
                return True
            for d in self._defs(f).get(e.id, ()):
                if d is not None and self.is_oneshot(f, d, depth + 1):
                    return True
        return False

    def _defs(self, f):
        if not hasattr(self, "_defs_cache"):
            self._defs_cache = {}
        if f.qual not in self._defs_cache:
            out = {}
            for n in iter_own(f.node):
                if isinstance(n, (ast.Assign, ast.AnnAssign)) and n.value is not None:
                    for t in n.targets if isinstance(n, ast.Assign) else [n.target]:
                        if isinstance(t, ast.Name):
                            out.setdefault(t.id, []).append(n.value)
                        else:
                            for nm in stored_names(t):
                                out.setdefault(nm, []).append(None)
                elif isinstance(n, (ast.For, ast.comprehension)):
                    for nm in stored_names(n.target):
                        out.setdefault(nm, []).append(None)
            self._defs_cache[f.qual] = out
        return self._defs_cache[f.qual]

    def fixpoint(self):
        """propagate through returns and call arguments"""
        idx = self.index
        for _ in range(6):
            changed = False
            for f in self.funcs:
                for n in iter_own(f.node):
                    if isinstance(n, ast.Return) and n.value is not None:
                        if self.is_oneshot(f, n.value) and not self.ret.get(f.qual):
                            self.ret[f.qual] = True
                            changed = True
                    elif isinstance(n, ast.Call):
                        callee = idx.callee(f.mod, n, f)
                        if callee not in idx.funcs:
                            continue
                        tf = idx.funcs[callee]
                        binds = []
                        for i, a in enumerate(n.args):
                            if isinstance(a, ast.Starred):
                                break
                            if i < len(tf.params):
                                binds.append((tf.params[i], a))
                        binds += [(k.arg, k.value) for k in n.keywords if k.arg]
                        for pname, a in binds:
                            if pname in tf.params and self.is_oneshot(f, a) and not self.param.get((callee, pname)):
                                self.param[(callee, pname)] = True
                                changed = True
            if not changed:
                break

    def analyse(self):
        """fill reports: (func, name, use1, use2)"""
        self.fixpoint()
        for f in self.funcs:
            par = f.mod.parents
            names = set(self._defs(f)) | set(f.params)
            for name in sorted(names):
                if not self.is_oneshot(f, ast.Name(id=name, ctx=ast.Load())):
                    continue
                uses = [
                    n
                    for n in iter_own(f.node)
                    if isinstance(n, ast.Name) and n.id == name and isinstance(n.ctx, ast.Load) and self._consumes(f, n)
                ]
                self.sites += 1
                uses.sort(key=lambda n: (n.lineno, n.col_offset))
                rebinds = sorted(
                    n.lineno
                    for n in iter_own(f.node)
                    if isinstance(n, (ast.Assign, ast.AnnAssign, ast.AugAssign))
                    and any(name in set(stored_names(t)) for t in (n.targets if isinstance(n, ast.Assign) else [n.target]))
                )
                for i, u1 in enumerate(uses):
                    for u2 in uses[i + 1 :]:
                        if self._exclusive(par, f, u1, u2):
                            continue
                        if any(u1.lineno < r <= u2.lineno for r in rebinds):
                            continue
                        # the second use must be able to see the same object: the definitions reaching
                        # both are one-shot (approximated flow-insensitively)
                        self.reports.append((f, name, u1, u2))
                        break
                    else:
                        continue
                    break
                # a single use inside a loop that does not rebind the name is a repeated consumption
                for u in uses:
                    loop = self._enclosing_loop(par, f, u)
                    if loop is not None and not any(loop.lineno <= r <= (loop.end_lineno or r) for r in rebinds):
                        defs_inside = False
                        if not defs_inside and not isinstance(par.get(u), ast.For):
                            self.reports.append((f, name, u, u))
                            break
        return self.reports

    def _consumes(self, f, n):
        par = f.mod.parents
        p = par.get(n)
        if isinstance(p, ast.Compare):
            return False
        if isinstance(p, (ast.If, ast.While, ast.IfExp)) and getattr(p, "test", None) is n:
            return False
        if isinstance(p, ast.BoolOp) or (isinstance(p, ast.UnaryOp) and isinstance(p.op, ast.Not)):
            return False
        if isinstance(p, ast.Call) and n in p.args:
            callee = self.index.callee(f.mod, p, f)
            if callee in NON_CONSUMING_CALLS:
                return False
            if callee == "builtins.next":
                return False  # deliberate stepping of an iterator
        if isinstance(p, ast.Return):
            return False  # handed on, not consumed here
        if isinstance(p, (ast.Assign, ast.AnnAssign)):
            return False  # alias
        return True

    @staticmethod
    def _branches(par, f, n):
        out = []
        child, p = n, par.get(n)
        while p is not None and p is not f.node:
            if isinstance(p, ast.If):
                if child in p.body:
                    out.append((id(p), "body"))
                elif child in p.orelse:
                    out.append((id(p), "orelse"))
            elif isinstance(p, ast.IfExp):
                if child is p.body:
                    out.append((id(p), "body"))
                elif child is p.orelse:
                    out.append((id(p), "orelse"))
            child, p = p, par.get(p)
        return out

    def _exclusive(self, par, f, a, b):
        ba, bb = dict(self._branches(par, f, a)), dict(self._branches(par, f, b))
        for k, v in ba.items():
            if k in bb and bb[k] != v:
                return True
        # the earlier use sits in a branch that ends with return/raise and the later use is outside it
        child, p = a, par.get(a)
        while p is not None and p is not f.node:
            if isinstance(p, ast.If):
                blk = p.body if child in p.body else p.orelse if child in p.orelse else None
                if blk and isinstance(blk[-1], (ast.Return, ast.Raise)) and not any(b is x for s in blk for x in ast.walk(s)):
                    return True
            elif isinstance(p, (ast.Return, ast.Raise)):
                # `return f(it)`: nothing after it runs
                if not any(b is x for x in ast.walk(p)):
                    return True
            child, p = p, par.get(p)
        return False

    @staticmethod
    def _enclosing_loop(par, f, n):
        child, p = n, par.get(n)
        while p is not None and p is not f.node:
            if isinstance(p, (ast.For, ast.While)) and child in p.body:
                return p
            if isinstance(p, (ast.ListComp, ast.GeneratorExp, ast.SetComp, ast.DictComp)):
                # used in the element expression or an inner generator of a comprehension
                if child is not p.generators[0] and not (child is p.generators[0].iter):
                    if getattr(p, "elt", None) is child or getattr(p, "key", None) is child or getattr(p, "value", None) is child:
                        return p
            child, p = p, par.get(p)
        return None


__all__ = ["OneShot", "short"]
