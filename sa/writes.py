"""
May-write model shared by C07/C12/C13/C17/C19/C20: which functions may mutate the file system,
call-site sensitive for the inferred `open(filename, <mode param>)` wrappers.
"""

import ast

from .core import iter_own
from .effects import mode_is_write


class WriteModel(object):
    """`may`: {func qual: witness}; `site_kind(f, node)` classifies a reference inside f"""

    def __init__(self, index, graph, effects):
        self.index = index
        self.graph = graph
        self.effects = effects
        self.wrappers = effects.mode_wrappers
        self.direct = {}
        for e in effects.sites:
            if e.kind == "FSWRITE" and e.func is not None and e.detail != "wrapper":
                self.direct.setdefault(e.func.qual, []).append(e)
        # wrapper reference sites that write
        self.wrapper_write_sites = {}  # func qual -> [(node, wrapper qual, mode)]
        for f in index.funcs.values():
            if f.mod.is_test:
                continue
            for node, wq, mode in self._wrapper_refs(f):
                if mode is None or mode_is_write(mode):
                    self.wrapper_write_sites.setdefault(f.qual, []).append((node, wq, mode))
        may = {}
        for q, lst in self.direct.items():
            may[q] = lst[0]
        for q, lst in self.wrapper_write_sites.items():
            may.setdefault(q, lst[0])
        changed = True
        while changed:
            changed = False
            for q, succ in graph.succ.items():
                if q in may:
                    continue
                for s in succ:
                    if s in may and s not in self.wrappers:
                        may[q] = s
                        changed = True
                        break
        self.may = may

    def _wrapper_refs(self, f):
        """references to mode wrappers inside f: (node, wrapper qual, folded mode or None)"""
        idx = self.index
        par = f.mod.parents
        for n in iter_own(f.node):
            if not isinstance(n, (ast.Name, ast.Attribute)) or not isinstance(
                getattr(n, "ctx", None), ast.Load
            ):
                continue
            p = par.get(n)
            if isinstance(p, ast.Attribute) and p.value is n:
                continue
            r = idx.resolve(f.mod, n, f)
            if r not in self.wrappers or r == f.qual:
                continue
            if isinstance(p, ast.Call) and p.func is n:
                yield p, r, self.effects.wrapper_call_mode(f.mod, f, p, r)
            elif (
                isinstance(p, ast.Call)
                and p.args
                and p.args[0] is n
                and idx.callee(f.mod, p, f) in ("functools.partial",)
            ):
                # partial(wrapper, ..., mode=...) : fold the keyword if given
                fake = ast.Call(func=n, args=p.args[1:], keywords=p.keywords)
                yield p, r, self.effects.wrapper_call_mode(f.mod, f, fake, r)
            else:
                yield n, r, None

    def path(self, q):
        """witness chain from q down to a primitive write"""
        out = []
        seen = set()
        while q in self.may and q not in seen:
            seen.add(q)
            out.append(q)
            w = self.may[q]
            if isinstance(w, str):
                q = w
            else:
                break
        return out
