"""
Obligation bookkeeping, known-findings matching, evidence writing, exit codes.

exit 0: all obligations discharged (or only listed known findings remain)
exit 1: at least one unlisted violation  (prints VIOLATION property=<id> replay=<path>)
exit 2: the analysis itself is broken    (prints ANALYSIS-ERROR property=<id> ...)
"""

import json
import os
import time

from .core import AnalysisError, norm, short

VERIF = os.path.dirname(os.path.dirname(os.path.abspath(__file__)))
FINDINGS_FILE = os.path.join(VERIF, "known_findings.json")


def load_findings():
    """known_findings.json -> list of dict"""
    if not os.path.isfile(FINDINGS_FILE):
        return []
    with open(FINDINGS_FILE) as f:
        return json.load(f)["findings"]


class Obligation(object):
    """One checked obligation"""

    __slots__ = ("rule", "module", "function", "construct", "line", "ok", "msg", "rel")

    def __init__(self, rule, module, function, construct, line, ok, msg, rel):
        self.rule = rule
        self.module = module
        self.function = function
        self.construct = construct
        self.line = line
        self.ok = ok
        self.msg = msg
        self.rel = rel

    def key(self):
        """position-independent identity"""
        return (self.rule, self.module, self.function, self.construct)

    def as_dict(self):
        """json form"""
        return {
            "rule": self.rule,
            "module": self.module,
            "function": self.function,
            "construct": self.construct,
            "line": self.line,
            "ok": self.ok,
            "what": self.msg,
        }


class _View(object):
    """see Ctx.view"""

    def __init__(self, ctx, keep, rule, prefix):
        self._ctx = ctx
        self._keep = keep
        self._rule = rule
        self._prefix = prefix

    def ob(self, rule, where, construct, ok, msg="", line=None):
        if not self._keep(where):
            return bool(ok)
        return self._ctx.ob(self._rule or rule, where, construct, ok, msg, line)

    def count(self, key, n=1):
        self._ctx.count(self._prefix + key, n)

    def __getattr__(self, name):
        return getattr(self._ctx, name)


class Ctx(object):
    """Per-run context handed to a rule module"""

    def __init__(self, prop, index, tier, seed, root, evidence_dir=None, quiet=False):
        self.prop = prop
        self.index = index
        self.tier = tier
        self.seed = seed
        self.root = root
        self.obligations = []
        self.notes = []
        self.analysed = {}
        self.assumptions = []
        self.explanation = ""
        self.samples = []
        self.extra = {}
        self.exhaustive = False
        self.floors = []
        self.errors = []
        self.t0 = time.time()
        self.evidence_dir = evidence_dir or os.path.join(VERIF, "evidence")
        self.quiet = quiet

    # ------------------------------------------------------------ recording
    def ob(self, rule, where, construct, ok, msg="", line=None):
        """
        Record an obligation.

        :param where: Func | (module_name, function_short) | Mod
        :param construct: ast node or str (normalised text becomes part of the finding key)
        """
        module, function, rel = _where(where)
        if line is None:
            line = getattr(construct, "lineno", None)
            if line is None and hasattr(where, "node"):
                line = getattr(where.node, "lineno", None)
        text = construct if isinstance(construct, str) else short(construct, 160)
        o = Obligation(rule, module, function, text, line, bool(ok), msg, rel)
        self.obligations.append(o)
        return bool(ok)

    def note(self, text):
        """an observation that is not an obligation"""
        self.notes.append(text)

    def count(self, key, n=1):
        """what was analysed"""
        self.analysed[key] = self.analysed.get(key, 0) + n

    def floor(self, what, got, minimum):
        """an instance-count floor; missing it means the recogniser silently stopped matching"""
        self.floors.append({"what": what, "got": got, "min": minimum})
        if got < minimum:
            raise AnalysisError(
                "instance floor missed: {} = {} < {} (recogniser no longer matches the code)".format(
                    what, got, minimum
                )
            )

    def section(self, fn, *args, **kwargs):
        """
        run one independent sub-rule; if its recogniser no longer understands the code (AnalysisError) the
        other sub-rules still run. Violations found elsewhere are reported (exit 1); with no violation the
        run ends as an analysis error (exit 2) — an unrecognised shape is never a silent pass.
        """
        try:
            return fn(*args, **kwargs)
        except AnalysisError as e:
            self.errors.append("{}: {}".format(getattr(fn, "__name__", "section"), e))
            return None

    def view(self, keep, rule=None, prefix=""):
        """
        a proxy handed to another property's sub-rule: only obligations whose `where` satisfies `keep`
        are recorded, under rule name `rule`; counters are prefixed. Everything else is this context.
        """
        return _View(self, keep, rule, prefix)

    def need(self, cond, msg):
        """shape requirement of a recogniser"""
        if not cond:
            raise AnalysisError(msg)

    def _canon(self, module, function, text):
        """construct text with unstable identifiers (locals) replaced by placeholders numbered by first occurrence"""
        import builtins
        import keyword
        import re

        stable = set(keyword.kwlist) | set(dir(builtins)) | {"self", "cls"}
        m = self.index.modules.get(module) if self.index is not None else None
        if m is not None:
            stable |= set(m.top)
            f = self.index.funcs.get(module + "." + function)
            while f is not None:
                stable |= set(f.params)
                f = f.outer
        out, seen = [], {}
        pos = 0
        tok = re.compile(r"""('(?:\\.|[^'\\])*'|"(?:\\.|[^"\\])*")|([A-Za-z_]\w*)""")
        for mt in tok.finditer(text):
            out.append(text[pos : mt.start()])
            pos = mt.end()
            if mt.group(1) is not None:
                out.append(mt.group(1))
                continue
            ident = mt.group(2)
            before = text[: mt.start()].rstrip()
            after = text[mt.end() :].lstrip()
            is_attr = before.endswith(".")
            is_kwname = after.startswith("=") and not after.startswith("==") and (before.endswith("(") or before.endswith(","))
            if ident in stable or is_attr or is_kwname:
                out.append(ident)
            else:
                out.append("\u00a7{}".format(seen.setdefault(ident, len(seen))))
        out.append(text[pos:])
        return "".join(out)

    # ------------------------------------------------------------- finishing
    def finish(self):
        """print report, write evidence; returns exit code"""
        findings = [f for f in load_findings() if f["property"] == self.prop]
        known = {}
        for f in findings:
            if f.get("status", "known") == "known":
                known[(f["rule"], f["module"], f["function"], f["construct"])] = f
        # a listed finding is the same finding after a local variable of its function was renamed: besides the
        # exact key, match on the construct with every identifier that is not a stable name (keyword, builtin,
        # module-level name, parameter, attribute, keyword-argument name) replaced by a positional placeholder
        known_canon = {}
        for k, f in known.items():
            known_canon[(k[0], k[1], k[2], self._canon(k[1], k[2], k[3]))] = k
        viol = [o for o in self.obligations if not o.ok]
        unlisted, listed = [], []
        seen_known = set()
        for o in viol:
            if o.key() in known:
                listed.append(o)
                seen_known.add(o.key())
                continue
            ck = (o.rule, o.module, o.function, self._canon(o.module, o.function, o.construct))
            if ck in known_canon:
                known[o.key()] = known[known_canon[ck]]
                listed.append(o)
                seen_known.add(known_canon[ck])
                seen_known.add(o.key())
            else:
                unlisted.append(o)
        out = []
        printed = set()
        for o in listed:
            if o.key() in printed:
                continue
            printed.add(o.key())
            out.append(
                "KNOWN-FINDING: property={} {} {}:{} `{}` {} | {}".format(
                    self.prop,
                    o.rule,
                    o.module,
                    o.function,
                    o.construct,
                    known[o.key()].get("what", ""),
                    o.msg,
                )
            )
        stale = [k for k in known if k not in seen_known]
        for k in stale:
            self.notes.append(
                "listed known finding no longer reproduces (fixed upstream?): {}".format(k)
            )
        os.makedirs(self.evidence_dir, exist_ok=True)
        replay = os.path.join(self.evidence_dir, "{}.violations.json".format(self.prop))
        if unlisted:
            with open(replay, "wt") as f:
                json.dump([o.as_dict() for o in unlisted], f, indent=1)
            out.append("VIOLATION property={} replay={}".format(self.prop, replay))
            for o in unlisted:
                out.append(
                    "  {}:{}  {}  {}  `{}`  {}".format(
                        o.rel, o.line, o.rule, o.function, o.construct, o.msg
                    )
                )
        elif os.path.isfile(replay):
            os.remove(replay)
        n = len(self.obligations)
        d = n - len(viol)
        self.count("obligations", 0)
        cov = {
            "explanation": self.explanation,
            "obligations": n,
            "discharged": d,
            "known_findings_matched": len(listed),
            "unlisted_violations": len(unlisted),
            "analysed": self.analysed,
            "floors": self.floors,
            "rules": sorted({o.rule for o in self.obligations}),
            "samples": self.samples
            or [o.as_dict() for o in self.obligations[:: max(1, n // 12)]][:14],
            "notes": self.notes,
            "analysis_errors": self.errors,
            "exhaustive": bool(self.exhaustive),
            "evaluations": n,
            "distinct_nontrivial": len({o.key() for o in self.obligations}),
            "rule": "one evaluation per obligation enumerated from the source; distinct = distinct "
            "(rule, module, function, construct) keys",
            "trusted_base": ["CPython ast module", "the rule recognisers in /verif/sa"],
            "checker_cmd": "./check {} --tier {}".format(self.prop, self.tier),
        }
        cov.update(self.extra)
        ev = {
            "property_id": self.prop,
            "tier": self.tier,
            "seed": int(self.seed),
            "level": "other",
            "coverage": cov,
            "assumptions": self.assumptions,
            "wall_s": round(time.time() - self.t0, 3),
            "violations": len(unlisted),
        }
        os.makedirs(self.evidence_dir, exist_ok=True)
        with open(os.path.join(self.evidence_dir, "{}.json".format(self.prop)), "wt") as f:
            json.dump(ev, f, indent=1, sort_keys=True)
            f.write("\n")
        if not self.quiet:
            print(
                "{} [{}] obligations={} discharged={} known={} unlisted={} analysed={}".format(
                    self.prop,
                    self.tier,
                    n,
                    d,
                    len(listed),
                    len(unlisted),
                    json.dumps(self.analysed, sort_keys=True),
                )
            )
            for t in self.notes:
                print("note: " + t)
        for line in out:
            print(line)
        for e in self.errors:
            print("ANALYSIS-ERROR property={} {}".format(self.prop, e))
        if unlisted:
            return 1
        return 2 if self.errors else 0


def _where(where):
    if hasattr(where, "qual") and hasattr(where, "mod"):
        return where.mod.name, where.short, where.mod.rel
    if hasattr(where, "tree"):
        return where.name, "<module>", where.rel
    module, function = where
    return module, function, module.replace(".", "/") + ".py"


__all__ = ["Ctx", "AnalysisError", "norm", "short", "load_findings"]
