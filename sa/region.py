"""
Helper-extraction awareness.

A maintainer who extracts part of an anchored function into a private helper moves constructs out of the
function a rule looks at, and moves a guard away from the construct it protects (the test stays in the
caller, the guarded statement is now in the helper). Two facilities keep the rules on the code:

`Region(index, graph, root)`   root + the helpers of its module that are only ever *called* from inside the
                               region (never passed around, never referenced from elsewhere), to depth 3.
`Facts(index, graph)`          guard facts at a node = the facts the GuardWalker derives inside its own
                               function, plus — when that function is such a helper — the facts common to ALL
                               of its call sites (recursively, depth 3), with plain-name arguments translated
                               to the helper's parameter names.
"""

import ast

from .core import iter_own
from .walker import GuardWalker


def referencing_functions(index, graph, h):
    """set of non-test Funcs that mention h in any way, or None when h is also used at module level"""
    out = set()
    for (a, b), nodes in graph.sites.items():
        if b != h.qual:
            continue
        caller = index.funcs.get(a)
        if caller is None:
            return None
        if caller.mod.is_test:
            continue
        if any(n is not h.node for n in nodes):
            out.add(caller)
    if h.outer is None:
        m = h.mod
        for n in ast.walk(m.tree):
            if isinstance(n, ast.Name) and n.id == h.node.name and isinstance(n.ctx, ast.Load):
                inside = m.parents.get(n)
                while inside is not None and not isinstance(inside, (ast.FunctionDef, ast.AsyncFunctionDef, ast.Lambda)):
                    inside = m.parents.get(inside)
                if inside is None:
                    return None
    return out


def direct_call_sites(index, graph, h):
    """
    [(caller Func, Call node)] when every non-test reference to function h is a direct call `h(...)`;
    None when h is also passed as a value / decorated / referenced from module level in another way.
    """
    out = []
    for (a, b), nodes in graph.sites.items():
        if b != h.qual:
            continue
        caller = index.funcs.get(a)
        if caller is None:
            return None
        if caller.mod.is_test:
            continue
        for n in nodes:
            if n is h.node:
                continue  # the edge owner -> nested def
            par = caller.mod.parents.get(n)
            if isinstance(par, ast.Call) and par.func is n:
                out.append((caller, par))
            else:
                return None
    # a module-level reference (e.g. a table of functions) is invisible to graph.sites: look for the bare name
    m = h.mod
    if h.outer is None:
        for n in ast.walk(m.tree):
            if isinstance(n, ast.Name) and n.id == h.node.name and isinstance(n.ctx, ast.Load):
                p = m.parents.get(n)
                inside = p
                while inside is not None and not isinstance(inside, (ast.FunctionDef, ast.AsyncFunctionDef, ast.Lambda)):
                    inside = m.parents.get(inside)
                if inside is None:
                    return None  # used at module level
    return out


class Region(object):
    """root function plus its private helpers (same module, only called from inside the region)"""

    def __init__(self, index, graph, root, depth=3, allow_passed=False):
        """
        :param allow_passed: also take helpers that the region hands to map/filter/partial (used when a rule
               collects constructs; guard facts are only available for directly called helpers)
        """
        self.index = index
        self.root = root
        self.funcs = [root]
        self.callsites = {}
        frontier = [root]
        for _ in range(depth):
            new = []
            for g in frontier:
                for hq in sorted(graph.succ.get(g.qual, ())):
                    h = index.funcs.get(hq)
                    if h is None or h in self.funcs or h.mod is not root.mod:
                        continue
                    calls = direct_call_sites(index, graph, h)
                    if calls and all(c in self.funcs for c, _n in calls):
                        self.funcs.append(h)
                        self.callsites[h.qual] = calls
                        new.append(h)
                        continue
                    if allow_passed:
                        refs = referencing_functions(index, graph, h)
                        if refs and all(c in self.funcs for c in refs):
                            self.funcs.append(h)
                            new.append(h)
            frontier = new

    def nodes(self):
        """(Func, node) for every own node of every function of the region"""
        for f in self.funcs:
            for n in iter_own(f.node):
                yield f, n

    def __contains__(self, f):
        return f in self.funcs


class Facts(object):
    """guard facts with call-site context for private helpers"""

    def __init__(self, index, graph, depth=3):
        self.index = index
        self.graph = graph
        self.depth = depth
        self._own = {}
        self._sites = {}

    def own(self, f):
        d = self._own.get(f.qual)
        if d is None:
            d = {}

            def rec(n, facts, _d=d):
                _d[id(n)] = facts

            GuardWalker(on_expr=rec, on_stmt=rec).walk_function(f.node)
            self._own[f.qual] = d
        return d

    def sites(self, f):
        if f.qual not in self._sites:
            self._sites[f.qual] = direct_call_sites(self.index, self.graph, f)
        return self._sites[f.qual]

    def at(self, f, node, depth=None, ascend_from=None):
        """
        facts known to hold whenever `node` (inside f) is evaluated

        :param ascend_from: when given, call-site context is only added for functions in this collection (e.g. the
               helpers of a Region: the facts stop at the region's root)
        """
        depth = self.depth if depth is None else depth
        own = dict(self.own(f).get(id(node)) or {})
        if depth <= 0 or (ascend_from is not None and f not in ascend_from):
            return own
        calls = self.sites(f)
        if not calls:
            return own
        merged = None
        for caller, call in calls:
            if caller is f:
                continue
            cf = dict(self.at(caller, call, depth - 1, ascend_from))
            for i, a in enumerate(call.args):
                if isinstance(a, ast.Name) and i < len(f.params) and a.id in cf:
                    cf[f.params[i]] = cf[a.id]
            for k in call.keywords:
                if k.arg and isinstance(k.value, ast.Name) and k.value.id in cf:
                    cf[k.arg] = cf[k.value.id]
            merged = cf if merged is None else {k: v for k, v in merged.items() if k in cf and cf[k] == v}
        out = dict(merged or {})
        out.update(own)
        return out
