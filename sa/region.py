"""
Helper-extraction awareness.

A maintainer who extracts part of an anchored function into a private helper moves constructs out of the
function a rule looks at, and moves a guard away from the construct it protects (the test stays in the
caller, the guarded statement is now in the helper). Two facilities keep the rules on the code:

`Region(index, graph, root)`   root + the helpers of its module that are only ever *called* from inside the
                               region (never passed around, never referenced from elsewhere), to depth 3.
`Facts(index, graph)`          guard facts at a node = the facts the GuardWalker derives inside its own
                               function, plus — when that function is such a helper — the facts common to ALL
                               of its call sites (recursively, depth 3), with plain-name arguments translated
                               to the helper's parameter names.
"""

import ast

from .core import iter_own
from .walker import GuardWalker


def referencing_functions(index, graph, h):
    """set of non-test Funcs that mention h in any way, or None when h is also used at module level"""
    out = set()
    for (a, b), nodes in graph.sites.items():
        if b != h.qual:
            continue
        caller = index.funcs.get(a)
        if caller is None:
            return None
        if caller.mod.is_test:
            continue
        if any(n is not h.node for n in nodes):
            out.add(caller)
    if h.outer is None:
        m = h.mod
        for n in ast.walk(m.tree):
            if isinstance(n, ast.Name) and n.id == h.node.name and isinstance(n.ctx, ast.Load):
                inside = m.parents.get(n)
                while inside is not None and not isinstance(inside, (ast.FunctionDef, ast.AsyncFunctionDef, ast.Lambda)):
                    inside = m.parents.get(inside)
                if inside is None:
                    return None
    return out


def direct_call_sites(index, graph, h):
    """
    [(caller Func, Call node)] when every non-test reference to function h is a direct call `h(...)`;
    None when h is also passed as a value / decorated / referenced from module level in another way.
    """
    out = []
    for (a, b), nodes in graph.sites.items():
        if b != h.qual:
            continue
        caller = index.funcs.get(a)
        if caller is None:
            return None
        if caller.mod.is_test:
            continue
        for n in nodes:
            if n is h.node:
                continue  # the edge owner -> nested def
            par = caller.mod.parents.get(n)
            if isinstance(par, ast.Call) and par.func is n:
                out.append((caller, par))
            else:
                return None
    # a module-level reference (e.g. a table of functions) is invisible to graph.sites: look for the bare name
    m = h.mod
    if h.outer is None:
        for n in ast.walk(m.tree):
            if isinstance(n, ast.Name) and n.id == h.node.name and isinstance(n.ctx, ast.Load):
                p = m.parents.get(n)
                inside = p
                while inside is not None and not isinstance(inside, (ast.FunctionDef, ast.AsyncFunctionDef, ast.Lambda)):
                    inside = m.parents.get(inside)
                if inside is None:
                    return None  # used at module level
    return out


class Region(object):
    """root function plus its private helpers (same module, only called from inside the region)"""

    def __init__(self, index, graph, root, depth=3, allow_passed=False):
        """
        :param allow_passed: also take helpers that the region hands to map/filter/partial (used when a rule
               collects constructs; guard facts are only available for directly called helpers)
        """
        self.index = index
        self.root = root
        self.funcs = [root]
        self.callsites = {}
        frontier = [root]
        for _ in range(depth):
            new = []
            for g in frontier:
                for hq in sorted(graph.succ.get(g.qual, ())):
                    h = index.funcs.get(hq)
                    if h is None or h in self.funcs or h.mod is not root.mod:
                        continue
                    calls = direct_call_sites(index, graph, h)
                    if calls and all(c in self.funcs for c, _n in calls):
                        self.funcs.append(h)
                        self.callsites[h.qual] = calls
                        new.append(h)
                        continue
                    if allow_passed:
                        refs = referencing_functions(index, graph, h)
                        if refs and all(c in self.funcs for c in refs):
                            self.funcs.append(h)
                            new.append(h)
            frontier = new

    def nodes(self):
        """(Func, node) for every own node of every function of the region"""
        for f in self.funcs:
            for n in iter_own(f.node):
                yield f, n

    def __contains__(self, f):
        return f in self.funcs


class Facts(object):
    """guard facts with call-site context for private helpers"""

    def __init__(self, index, graph, depth=3):
        self.index = index
        self.graph = graph
        self.depth = depth
        self._own = {}
        self._sites = {}

    def own(self, f):
        d = self._own.get(f.qual)
        if d is None:
            d = {}

            def rec(n, facts, _d=d):
                _d[id(n)] = facts

            GuardWalker(on_expr=rec, on_stmt=rec).walk_function(f.node)
            self._own[f.qual] = d
        return d

    def sites(self, f):
        if f.qual not in self._sites:
            self._sites[f.qual] = direct_call_sites(self.index, self.graph, f)
        return self._sites[f.qual]

    def at(self, f, node, depth=None, ascend_from=None):
        """
        facts known to hold whenever `node` (inside f) is evaluated

        :param ascend_from: when given, call-site context is only added for functions in this collection (e.g. the
               helpers of a Region: the facts stop at the region's root)
        """
        depth = self.depth if depth is None else depth
        own = dict(self.own(f).get(id(node)) or {})
        if depth <= 0 or (ascend_from is not None and f not in ascend_from):
            return own
        calls = self.sites(f)
        if not calls:
            return own
        merged = None
        for caller, call in calls:
            if caller is f:
                continue
            cf = dict(self.at(caller, call, depth - 1, ascend_from))
            for i, a in enumerate(call.args):
                if isinstance(a, ast.Name) and i < len(f.params) and a.id in cf:
                    cf[f.params[i]] = cf[a.id]
            for k in call.keywords:
                if k.arg and isinstance(k.value, ast.Name) and k.value.id in cf:
                    cf[k.arg] = cf[k.value.id]
            merged = cf if merged is None else {k: v for k, v in merged.items() if k in cf and cf[k] == v}
        out = dict(merged or {})
        out.update(own)
        return out


def inline_return(index, f, call):
    """
    the expression `call` denotes when its callee is a small function of the package whose body is a single
    `return <expr>` (plus a docstring): <expr> with the parameters replaced by the arguments; else None.
    """
    import copy

    if not isinstance(call, ast.Call):
        return None
    h = index.funcs.get(index.callee(f.mod, call, f) or "")
    if h is None:
        return None
    body = [st for st in h.node.body if not (isinstance(st, ast.Expr) and isinstance(st.value, ast.Constant))]
    if len(body) != 1 or not isinstance(body[0], ast.Return) or body[0].value is None:
        return None
    bound = {}
    for i, a in enumerate(call.args):
        if isinstance(a, ast.Starred) or i >= len(h.params):
            return None
        bound[h.params[i]] = a
    for k in call.keywords:
        if k.arg is None:
            return None
        bound[k.arg] = k.value
    # parameters not supplied must have defaults: use them
    a_ = h.node.args
    pos = a_.posonlyargs + a_.args
    for prm, d in zip(pos[len(pos) - len(a_.defaults):], a_.defaults):
        bound.setdefault(prm.arg, d)
    for prm, d in zip(a_.kwonlyargs, a_.kw_defaults):
        if d is not None:
            bound.setdefault(prm.arg, d)
    if any(p not in bound for p in h.params):
        return None

    class Sub(ast.NodeTransformer):
        def visit_Name(self, x):
            if x.id in bound and isinstance(x.ctx, ast.Load):
                return ast.copy_location(copy.deepcopy(bound[x.id]), x)
            return x

    return Sub().visit(copy.deepcopy(body[0].value))


def import_time_calls(index, graph, h):
    """
    [(Mod, Call)] — the module-level direct calls of top-level function h — when those are its ONLY references in
    the non-test package (no function mentions it): such a function runs at import, like the module-level
    statements it was extracted from. None otherwise (or when it is never called at all).
    """
    if h.outer is not None:
        return None
    for (a, b), nodes in graph.sites.items():
        if b == h.qual and a != h.qual:
            caller = index.funcs.get(a)
            if caller is None or not caller.mod.is_test:
                return None
    out = []
    for name in index.nontest_modules():
        m = index.modules[name]
        for n in ast.walk(m.tree):
            if not isinstance(n, (ast.Name, ast.Attribute)) or not isinstance(getattr(n, "ctx", None), ast.Load):
                continue
            if isinstance(n, ast.Name) and n.id != h.node.name:
                continue
            if isinstance(n, ast.Attribute) and n.attr != h.node.name:
                continue
            inside = m.parents.get(n)
            while inside is not None and not isinstance(inside, (ast.FunctionDef, ast.AsyncFunctionDef, ast.Lambda, ast.ClassDef)):
                inside = m.parents.get(inside)
            if inside is not None:
                continue  # references from functions are in graph.sites; class bodies do not call
            if index.resolve(m, n, None) != h.qual:
                continue
            par = m.parents.get(n)
            if isinstance(par, ast.Call) and par.func is n:
                out.append((m, par))
            elif isinstance(par, (ast.List, ast.Tuple)) and isinstance(m.parents.get(par), ast.Assign):
                continue  # __all__ = [...] holds strings, not names; a name in a list is a value: not a call
            else:
                return None
    return out or None


def specialise(h, call):
    """
    Partial evaluation of `call` to function h for arguments that are constants (absent ones take their constant
    defaults): the straight-line list of statements the call executes, with parameters and single-assignment
    locals substituted, `if` tests on constants (`x is None`, `not x`, `x`) decided. None when the body does
    something else (loops, tests on non-constants, ...).
    """
    import copy

    a = h.node.args
    if a.vararg is not None or a.kwarg is not None:
        return None
    pos = a.posonlyargs + a.args
    env = {}
    for i, arg in enumerate(call.args):
        if isinstance(arg, ast.Starred) or i >= len(pos):
            return None
        env[pos[i].arg] = arg
    for k in call.keywords:
        if k.arg is None:
            return None
        env[k.arg] = k.value
    for prm, d in zip(pos[len(pos) - len(a.defaults):], a.defaults):
        env.setdefault(prm.arg, d)
    for prm, d in zip(a.kwonlyargs, a.kw_defaults):
        if d is not None:
            env.setdefault(prm.arg, d)
    if any(p.arg not in env for p in pos + a.kwonlyargs):
        return None

    def sub(e):
        class Sub(ast.NodeTransformer):
            def visit_Name(self, x):
                if x.id in env and isinstance(x.ctx, ast.Load):
                    return ast.copy_location(copy.deepcopy(env[x.id]), x)
                return x

            def visit_IfExp(self, x):
                x = self.generic_visit(x)
                t = truth(x.test)
                if t is None:
                    return x
                return x.body if t else x.orelse

        return Sub().visit(copy.deepcopy(e))

    def truth(t):
        """True/False when the (substituted) test is decided by constants, else None"""
        if isinstance(t, ast.Constant):
            return bool(t.value)
        if isinstance(t, ast.UnaryOp) and isinstance(t.op, ast.Not):
            v = truth(t.operand)
            return None if v is None else not v
        if (
            isinstance(t, ast.Compare)
            and len(t.ops) == 1
            and isinstance(t.ops[0], (ast.Is, ast.IsNot))
            and isinstance(t.comparators[0], ast.Constant)
            and t.comparators[0].value is None
        ):
            if isinstance(t.left, ast.Constant):
                r = t.left.value is None
                return r if isinstance(t.ops[0], ast.Is) else not r
            if isinstance(t.left, (ast.Dict, ast.List, ast.Tuple, ast.Set, ast.JoinedStr)):
                return isinstance(t.ops[0], ast.IsNot)
        return None

    out = []

    def run(stmts):
        for s in stmts:
            if isinstance(s, ast.Expr) and isinstance(s.value, ast.Constant) or isinstance(s, ast.Pass):
                continue
            if isinstance(s, ast.Return):
                if s.value is not None:
                    out.append(ast.copy_location(ast.Expr(value=sub(s.value)), s))
                return False
            if isinstance(s, ast.If):
                t = truth(sub(s.test))
                if t is None:
                    return None
                r = run(s.body if t else s.orelse)
                if r is not True:
                    return r
                continue
            if isinstance(s, ast.Assign) and len(s.targets) == 1 and isinstance(s.targets[0], ast.Name):
                env[s.targets[0].id] = sub(s.value)
                continue
            if isinstance(s, (ast.Expr, ast.Assign, ast.AugAssign)):
                new = copy.deepcopy(s)
                for fld in ("value", "target"):
                    if hasattr(new, fld):
                        setattr(new, fld, sub(getattr(new, fld)))
                if isinstance(new, ast.Assign):
                    new.targets = [sub_store(t) for t in new.targets]
                out.append(new)
                continue
            return None
        return True

    def sub_store(t):
        """x[k] = v / x.a = v with x a substituted name: rewrite the receiver"""
        t = copy.deepcopy(t)
        if isinstance(t, (ast.Subscript, ast.Attribute)):
            t.value = sub(t.value)
            if isinstance(t, ast.Subscript):
                t.slice = sub(t.slice)
        return t

    r = run(h.node.body)
    if r is None:
        return None
    return out


def entry_views(index, graph, root, name, depth=3):
    """
    [(Func, local name, call chain)] — every function in which the object that `root` holds in local `name` is visible:
    root itself, its nested functions (closure, same name), and the private helpers of its region that receive it as a
    plain argument (under the parameter's name), transitively. `call chain` is the list of (caller Func, Call node)
    leading from root to that view (empty for root / closures): the guards on the way to a construct in a helper are
    the guards inside the helper plus those around each call of the chain.
    """
    reg = Region(index, graph, root, depth=depth)
    out = [(root, name, [])]
    for g in index.funcs.values():
        if g.outer is root and name not in g.params:
            out.append((g, name, []))
    frontier = list(out)
    seen = {(root.qual, name)}
    for _ in range(depth):
        new = []
        for f, nm, chain in frontier:
            for c in iter_own(f.node):
                if not isinstance(c, ast.Call):
                    continue
                h = index.funcs.get(index.callee(f.mod, c, f) or "")
                if h is None or h not in reg.funcs or h is f:
                    continue
                for p, a in index.bound_args(f.mod, c, f).items():
                    if isinstance(a, ast.Name) and a.id == nm and p in h.params and (h.qual, p) not in seen:
                        seen.add((h.qual, p))
                        v = (h, p, chain + [(f, c)])
                        out.append(v)
                        new.append(v)
        frontier = new
    return out
