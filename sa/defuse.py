"""
Small def-use helpers (flow-insensitive closure inside one function, following closures of
enclosing functions).
"""

import ast

from .core import iter_own, stored_names


def local_defs(f):
    """{name: [value expr or ('iter', expr)]} for one function (own nodes only)"""
    out = {}
    for n in iter_own(f.node):
        if isinstance(n, (ast.Assign, ast.AnnAssign, ast.AugAssign)) and n.value is not None:
            for t in n.targets if isinstance(n, ast.Assign) else [n.target]:
                if (
                    isinstance(t, (ast.Tuple, ast.List))
                    and isinstance(n.value, (ast.Tuple, ast.List))
                    and len(t.elts) == len(n.value.elts)
                    and not any(isinstance(x, ast.Starred) for x in t.elts + n.value.elts)
                ):
                    for te, ve in zip(t.elts, n.value.elts):
                        for nm in stored_names(te):
                            out.setdefault(nm, []).append(ve)
                    continue
                for nm in stored_names(t):
                    out.setdefault(nm, []).append(n.value)
                if isinstance(t, (ast.Subscript, ast.Attribute)):
                    root = t
                    while isinstance(root, (ast.Subscript, ast.Attribute)):
                        root = root.value
                    if isinstance(root, ast.Name):
                        out.setdefault(root.id, []).append(n.value)
                        if isinstance(t, ast.Subscript):
                            out.setdefault(root.id, []).append(t.slice)
        elif (
            isinstance(n, ast.Call)
            and isinstance(n.func, ast.Attribute)
            and n.func.attr in ("append", "extend", "insert", "add", "update", "setdefault", "appendleft")
        ):
            root = n.func.value
            keys = []
            while isinstance(root, (ast.Subscript, ast.Attribute)):
                if isinstance(root, ast.Subscript):
                    keys.append(root.slice)
                root = root.value
            if isinstance(root, ast.Name):
                for a in list(n.args) + [k.value for k in n.keywords] + keys:
                    out.setdefault(root.id, []).append(a)
        elif isinstance(n, (ast.For, ast.AsyncFor, ast.comprehension)):
            for nm in stored_names(n.target):
                out.setdefault(nm, []).append(n.iter)
        elif isinstance(n, ast.withitem) and n.optional_vars is not None:
            for nm in stored_names(n.optional_vars):
                out.setdefault(nm, []).append(n.context_expr)
        elif isinstance(n, ast.NamedExpr):
            for nm in stored_names(n.target):
                out.setdefault(nm, []).append(n.value)
    return out


def lambda_params_in_scope(f, node):
    """{param name: bound argument expr or None} of lambdas enclosing node (immediately applied ones
    are bound to their argument)"""
    par = f.mod.parents
    out = {}
    n = par.get(node)
    while n is not None and n is not f.node:
        if isinstance(n, ast.Lambda):
            names = [a.arg for a in n.args.posonlyargs + n.args.args + n.args.kwonlyargs]
            call = par.get(n)
            for i, nm in enumerate(names):
                bound = None
                if isinstance(call, ast.Call) and call.func is n and i < len(call.args):
                    bound = call.args[i]
                elif isinstance(call, ast.Call) and n in call.args and call.args.index(n) == 0:
                    # map(lambda x: ..., iterable) / filter(...)
                    if len(call.args) > 1 + i:
                        bound = call.args[1 + i]
                out.setdefault(nm, bound)
        n = par.get(n)
    return out


def param_roots(f, expr, _depth=0):
    """
    The parameters (of f or of its enclosing functions) that `expr` may depend on, through local
    assignments, loop targets and lambda bindings. Names that resolve to nothing local are ignored
    (module-level names, builtins).
    """
    roots = set()
    seen = set()
    work = [(f, expr)]
    defs_cache = {}
    while work:
        g, e = work.pop()
        lam = lambda_params_in_scope(g, e) if hasattr(e, "lineno") else {}
        for n in ast.walk(e):
            if not isinstance(n, ast.Name) or not isinstance(n.ctx, ast.Load):
                continue
            key = (g.qual, n.id)
            lam_n = lambda_params_in_scope(g, n)
            if n.id in lam_n:
                b = lam_n[n.id]
                if b is not None and (g.qual, id(b)) not in seen:
                    seen.add((g.qual, id(b)))
                    work.append((g, b))
                continue
            if key in seen:
                continue
            seen.add(key)
            h = g
            while h is not None:
                if h.qual not in defs_cache:
                    defs_cache[h.qual] = local_defs(h)
                d = defs_cache[h.qual]
                hit = False
                if n.id in h.params:
                    roots.add(n.id)
                    hit = True
                if n.id in d:
                    for v in d[n.id]:
                        work.append((h, v))
                    hit = True
                if hit:
                    break
                h = h.outer
        del lam
    return roots


def expand_aliases(f, node, depth=4, keep=()):
    """
    A copy of expression `node` in which every local of f that has exactly ONE definition in the function, by
    a plain expression (not a loop target, not an augmented assignment), is replaced by that expression,
    recursively to `depth`. Lets a rule compare `abs(n_args - len(cur_defaults))` with
    `abs(len(getattr(a, x)) - len(getattr(a, y)))` after someone named the sub-expressions.
    Names in `keep` and parameters are left alone.
    """
    import copy

    single = {}
    counts = {}
    for n in iter_own(f.node):
        if isinstance(n, (ast.Assign, ast.AnnAssign)) and n.value is not None:
            tg = n.targets if isinstance(n, ast.Assign) else [n.target]
            for t in tg:
                for nm in stored_names(t):
                    counts[nm] = counts.get(nm, 0) + 1
                if isinstance(t, ast.Name):
                    single[t.id] = n.value
                elif (
                    isinstance(t, (ast.Tuple, ast.List))
                    and isinstance(n.value, (ast.Tuple, ast.List))
                    and len(t.elts) == len(n.value.elts)
                    and not any(isinstance(x, ast.Starred) for x in t.elts + n.value.elts)
                ):
                    # a, b = x, y  — element-wise (the right-hand sides are evaluated before either name is bound, so
                    # this is only an alias when no right-hand side mentions a left-hand name other than its own)
                    lhs = {x.id for x in t.elts if isinstance(x, ast.Name)}
                    for te, ve in zip(t.elts, n.value.elts):
                        if isinstance(te, ast.Name) and not ({y.id for y in ast.walk(ve) if isinstance(y, ast.Name)} & (lhs - {te.id})):
                            single[te.id] = ve
        elif isinstance(n, (ast.AugAssign, ast.NamedExpr)):
            for nm in stored_names(n.target):
                counts[nm] = counts.get(nm, 0) + 2
        elif isinstance(n, (ast.For, ast.AsyncFor, ast.comprehension)):
            for nm in stored_names(n.target):
                counts[nm] = counts.get(nm, 0) + 2
        elif isinstance(n, (ast.With, ast.AsyncWith)):
            for it in n.items:
                if it.optional_vars is not None:
                    for nm in stored_names(it.optional_vars):
                        counts[nm] = counts.get(nm, 0) + 2
    ok = {nm: v for nm, v in single.items() if counts.get(nm) == 1 and nm not in f.params and nm not in keep}

    class Sub(ast.NodeTransformer):
        def __init__(self, d):
            self.d = d

        def visit_Name(self, n):
            if isinstance(n.ctx, ast.Load) and n.id in ok and self.d > 0:
                return Sub(self.d - 1).visit(copy.deepcopy(ok[n.id]))
            return n

    return Sub(depth).visit(copy.deepcopy(node))
